package sfh

import (
	"bytes"
	"fmt"
	"strings"
)

// Formats whose codec model and specification exist on the Lean side. Every codec
// property generator ranges over these.
var ModelledFormats = []string{"cbor", "ubj", "json"}

func optsFor(r *Rand, f string) string {
	if f == "json" {
		return Pick(r, []string{"-", "h", "r", "i", "hr", "hi", "ri", "hri"})
	}
	return "-"
}

func renderOptsFor(r *Rand, f string) RenderOpts {
	return RenderOpts{Ext: r.P(60), Refs: r.P(50), UnknownLn: r.P(70)}
}

// eventValOpts: value domain for event streams fed to an encoder of format f
func eventValOpts(f, tier string) ValOpts {
	return valOpts(tier)
}

func forFormats(g func(f string) GenFn) GenFn {
	return func(r *Rand, tier string, emit func(string)) {
		for _, f := range ModelledFormats {
			g(f)(r.Fork(), tier, emit)
		}
	}
}

// --------------------------------------------------------------------------- C01

func genC01(f string) GenFn {
	return func(r *Rand, tier string, emit func(string)) {
		// every boundary integer in every admissible kind; every byte as a string and as a key
		for _, v := range Boundaries {
			for _, k := range Kinds {
				if k.Fits(v) {
					emit(fmt.Sprintf("rt %s - %s", f, numTok(k, v)))
				}
			}
		}
		for b := 0; b < 256; b++ {
			emit(fmt.Sprintf("rt %s - S:%02x", f, b))
			emit(fmt.Sprintf("rt %s - {1:0,K:%02x,N,}", f, b))
		}
		for _, bits := range f64Special {
			emit(fmt.Sprintf("rt %s %s %s", f, optsFor(r, f), F64Tok(bits)))
		}
		for _, bits := range f32Special {
			emit(fmt.Sprintf("rt %s %s %s", f, optsFor(r, f), F32Tok(bits)))
		}
		n := tierN(tier, 2500, 60000)
		for i := 0; i < n; i++ {
			v := r.Val(eventValOpts(f, tier), 0)
			emit(fmt.Sprintf("rt %s %s %s", f, optsFor(r, f), evStream(r, v, renderOptsFor(r, f))))
		}
	}
}

// --------------------------------------------------------------------------- C02

func allCutSets(doc []byte, emit func(chunks [][]byte)) {
	n := len(doc)
	if n < 2 {
		return
	}
	for mask := 1; mask < 1<<(n-1); mask++ {
		var cuts []int
		for i := 0; i < n-1; i++ {
			if mask&(1<<i) != 0 {
				cuts = append(cuts, i+1)
			}
		}
		emit(CutsToChunks(doc, cuts))
	}
}

func (r *Rand) docFor(f, tier string, malformedPct int) []byte {
	var doc []byte
	nd := 1
	if r.P(15) {
		nd = 2 + r.Intn(2)
	}
	for d := 0; d < nd; d++ {
		var v *V
		if nd > 1 {
			v = r.Container(valOptsFor(f, tier))
		} else {
			v = r.valFor(f, tier)
		}
		doc = append(doc, r.WireDoc(f, v, r.P(30))...)
		if f == "json" {
			doc = append(doc, ' ')
		}
	}
	if r.P(malformedPct) {
		doc = r.Mutate(doc)
		if r.P(30) {
			doc = r.Mutate(doc)
		}
	}
	return doc
}

func genC02(f string) GenFn {
	return func(r *Rand, tier string, emit func(string)) {
		entries := []string{"W", "R"}
		// exhaustive cut sets of short documents
		maxLen := 8
		nShort := 60
		if tier == "thorough" {
			maxLen, nShort = 12, 200
		}
		small := ValOpts{MaxDepth: 2, MaxWidth: 2, MaxStr: 3}
		if f == "json" {
			small.FiniteOnly, small.NoF32 = true, true
		}
		if f == "ubj" {
			small.IntMax63 = true
		}
		cnt := 0
		for tries := 0; cnt < nShort && tries < 20000; tries++ {
			v := r.Val(small, 0)
			doc := r.WireDoc(f, v, r.P(40))
			if r.P(25) {
				doc = r.Mutate(doc)
			}
			if len(doc) < 2 || len(doc) > maxLen {
				continue
			}
			cnt++
			allCutSets(doc, func(chunks [][]byte) {
				emit(fmt.Sprintf("chunk %s W %s", f, ChunksString(chunks)))
			})
		}
		// every two-way cut and the 1-byte chunking of larger documents; random chunkings
		n := tierN(tier, 500, 8000)
		for i := 0; i < n; i++ {
			doc := r.docFor(f, tier, 25)
			if len(doc) > 400 {
				continue
			}
			if len(doc) <= 60 || r.P(20) {
				for c := 1; c < len(doc); c++ {
					emit(fmt.Sprintf("chunk %s %s %s", f, Pick(r, entries), ChunksString([][]byte{doc[:c], doc[c:]})))
				}
			}
			var one [][]byte
			for j := range doc {
				one = append(one, doc[j:j+1])
			}
			if len(one) > 0 {
				emit(fmt.Sprintf("chunk %s %s %s", f, Pick(r, entries), ChunksString(one)))
			}
			for k := 0; k < 3; k++ {
				emit(fmt.Sprintf("chunk %s %s %s", f, Pick(r, entries), ChunksString(r.RandChunks(doc))))
			}
		}
	}
}

// --------------------------------------------------------------------------- C03

func shortAlphabet(f string) []byte {
	switch f {
	case "cbor":
		return allBytes()
	case "ubj":
		return []byte("ZNTFiUIlLdDCHS[]{}$#\x00\x01\x02\x7f\x80\xff")
	default:
		return []byte("{}[],:\"\\u01-+.eEtrnfals ")
	}
}

func genC03(f string) GenFn {
	return func(r *Rand, tier string, emit func(string)) {
		genShortInputs(f, shortAlphabet(f))(r, tier, emit)
		n := tierN(tier, 2500, 50000)
		entries := []string{"P", "S", "W", "R"}
		for i := 0; i < n; i++ {
			doc := r.docFor(f, tier, 0)
			if len(doc) > 600 {
				continue
			}
			switch r.Intn(4) {
			case 0: // every kind of prefix
				if len(doc) > 0 {
					doc = doc[:r.Intn(len(doc))]
				}
			case 1, 2:
				doc = r.Mutate(doc)
				if r.P(40) {
					doc = r.Mutate(doc)
				}
			default: // random garbage
				m := r.Intn(12)
				doc = make([]byte, m)
				for j := range doc {
					doc[j] = byte(r.U64())
				}
			}
			entry := Pick(r, entries)
			chunks := [][]byte{doc}
			if entry == "W" || entry == "R" {
				chunks = r.RandChunks(doc)
			}
			emit(fmt.Sprintf("parse %s %s -1 %s", f, entry, ChunksString(chunks)))
		}
		// all prefixes of some valid documents, every entry point
		m := tierN(tier, 60, 600)
		for i := 0; i < m; i++ {
			doc := r.docFor(f, "quick", 0)
			if len(doc) > 80 {
				continue
			}
			for c := 0; c <= len(doc); c++ {
				emit(fmt.Sprintf("parse %s %s -1 %s", f, Pick(r, entries), ChunksString([][]byte{doc[:c]})))
			}
		}
		// pull decoders on malformed / truncated streams
		genDecOps(f, 600)(r.Fork(), tier, emit)
	}
}

// --------------------------------------------------------------------------- C04/C05/C06 (conformance)

func genConformance(f string) GenFn {
	return func(r *Rand, tier string, emit func(string)) {
		n := tierN(tier, 4000, 80000)
		entries := []string{"P", "P", "S", "W", "R"}
		for i := 0; i < n; i++ {
			doc := r.docFor(f, tier, 0)
			entry := Pick(r, entries)
			chunks := [][]byte{doc}
			if entry == "W" || entry == "R" {
				chunks = r.RandChunks(doc)
			}
			emit(fmt.Sprintf("parse %s %s -1 %s", f, entry, ChunksString(chunks)))
		}
		if f == "cbor" {
			// every unsupported feature, alone and nested in arrays / maps
			for _, u := range cborUnsupported {
				emit(fmt.Sprintf("parse cbor P -1 %s", hx(u)))
				emit(fmt.Sprintf("parse cbor P -1 82%s01", hx(u)))
				emit(fmt.Sprintf("parse cbor P -1 9f01%sff", hx(u)))
				emit(fmt.Sprintf("parse cbor P -1 a16161%s", hx(u)))
			}
			// every head byte with a small valid continuation
			for b := 0; b < 256; b++ {
				emit(fmt.Sprintf("parse cbor P -1 %02x0000000000000000", b))
				emit(fmt.Sprintf("parse cbor P -1 %02x", b))
			}
		}
	}
}

// --------------------------------------------------------------------------- C07

func genC07(f string) GenFn {
	return func(r *Rand, tier string, emit func(string)) {
		if f == "json" {
			emit("escsets x")
		}
		genEncBoundaries(f)(r, tier, emit)
		n := tierN(tier, 3000, 60000)
		for i := 0; i < n; i++ {
			v := r.Val(eventValOpts(f, tier), 0)
			emit(fmt.Sprintf("enc %s %s -1 %s", f, optsFor(r, f), evStream(r, v, renderOptsFor(r, f))))
		}
		genExtEvents(f, false)(r, tier, emit)
	}
}

// every extended event kind x {empty, one, several, boundary}
func extTokens(r *Rand) []string {
	var out []string
	intKinds := []string{"i8", "i16", "i32", "i64", "i", "b", "u8", "u16", "u32", "u64", "u"}
	for _, k := range intKinds {
		nk := KindByName(k)
		out = append(out, fmt.Sprintf("A%s:0:", k))
		out = append(out, fmt.Sprintf("A%s:1:%s", k, nk.Hi.String()))
		out = append(out, fmt.Sprintf("A%s:1:%s", k, nk.Lo.String()))
		out = append(out, fmt.Sprintf("A%s:3:%s/%s/%s", k, r.IntIn(nk).String(), nk.Hi.String(), r.IntIn(nk).String()))
		out = append(out, fmt.Sprintf("A%s:2:1/2", k))
		if k != "b" {
			out = append(out, fmt.Sprintf("O%s:0:", k))
			out = append(out, fmt.Sprintf("O%s:1:6b=%s", k, nk.Hi.String()))
			out = append(out, fmt.Sprintf("O%s:1:=%s", k, r.IntIn(nk).String()))
		}
	}
	out = append(out, "Abool:0:", "Abool:1:T", "Abool:3:T/F/T", "Obool:0:", "Obool:1:6b=F")
	out = append(out, "Astr:0:", "Astr:1:", "Astr:2:61/", "Astr:2:c3a9/ff", "Ostr:0:", "Ostr:1:6b=76", "Ostr:1:=")
	out = append(out, "Af32:0:", "Af32:1:3fc00000", "Af32:2:7fc00000/80000000", "Of32:0:", "Of32:1:6b=3fc00000")
	out = append(out, "Af64:0:", "Af64:1:3ff8000000000000", "Af64:2:7ff0000000000000/8000000000000000", "Of64:0:", "Of64:1:6b=3ff8000000000000")
	out = append(out, "R:", "R:61", "R:ff00")
	return out
}

// genExtEvents: ext ops (C10) or enc ops (C07) placing every extended event in several contexts
func genExtEvents(f string, asExt bool) GenFn {
	return func(r *Rand, tier string, emit func(string)) {
		type ctx struct{ pre, suf string }
		ctxs := []ctx{
			{"-", "-"},
			{"[-1:0", "]"},
			{"[-1:0,i:1", "T,]"},
			{"[3:0,N", "S:61,]"},
			{"{-1:0,K:61", "}"},
			{"{2:0,K:61", "K:62,i8:5,}"},
			{"[-1:0,[-1:0", "],N,]"},
			{"{-1:0,K:61,[1:0", "],K:62,T,}"},
		}
		for _, x := range extTokens(r) {
			for _, c := range ctxs {
				opts := optsFor(r, f)
				if asExt {
					emit(fmt.Sprintf("ext %s %s %s %s %s", f, opts, c.pre, x, c.suf))
				} else {
					var parts []string
					if c.pre != "-" {
						parts = append(parts, c.pre)
					}
					parts = append(parts, x)
					if c.suf != "-" {
						parts = append(parts, c.suf)
					}
					emit(fmt.Sprintf("enc %s %s -1 %s", f, opts, strings.Join(parts, ",")))
				}
			}
		}
		if f == "json" || !asExt {
			return
		}
	}
}

// key-ref tokens need an object context
func genExtKeyRef(f string) GenFn {
	return func(r *Rand, tier string, emit func(string)) {
		for _, k := range []string{"", "61", "c3a9", "ff", "6b6579"} {
			emit(fmt.Sprintf("ext %s - {-1:0 Q:%s N,}", f, k))
			emit(fmt.Sprintf("ext %s - {2:0,K:61,T Q:%s i8:1,}", f, k))
		}
	}
}

// --------------------------------------------------------------------------- C10

func genC10(f string) GenFn {
	return func(r *Rand, tier string, emit func(string)) {
		genExtEvents(f, true)(r, tier, emit)
		genExtKeyRef(f)(r, tier, emit)
		// random typed events inside random enclosing documents
		n := tierN(tier, 1500, 30000)
		for i := 0; i < n; i++ {
			x := Pick(r, extTokens(r))
			v := r.Container(ValOpts{MaxDepth: 3, MaxWidth: 3, MaxStr: 10})
			toks := r.Render(v, RenderOpts{UnknownLn: r.P(60)}, nil)
			// insert x at a random value position inside the outermost container
			pos := 1
			if toks[0][0] == '{' {
				// after a key
				var cand []int
				for j, t := range toks {
					if strings.HasPrefix(t, "K:") {
						cand = append(cand, j+1)
					}
				}
				if len(cand) == 0 {
					continue
				}
				// replace the value following the key: only simple if it is a scalar
				pos = Pick(r, cand)
				if strings.ContainsAny(toks[pos][:1], "[{") {
					continue
				}
				// unknown length avoids fixing up counts
				toks[0] = "{-1:" + strings.SplitN(toks[0], ":", 2)[1]
				pre := strings.Join(toks[:pos], ",")
				suf := strings.Join(toks[pos+1:], ",")
				emit(fmt.Sprintf("ext %s %s %s %s %s", f, optsFor(r, f), pre, x, suf))
				continue
			}
			toks[0] = "[-1:" + strings.SplitN(toks[0], ":", 2)[1]
			// depth-0 positions of the outer array
			depth := 0
			var cand []int
			for j, t := range toks {
				if j > 0 && depth == 1 {
					cand = append(cand, j)
				}
				if t[0] == '[' || t[0] == '{' {
					depth++
				} else if t == "]" || t == "}" {
					depth--
				}
			}
			if len(cand) == 0 {
				continue
			}
			pos = Pick(r, cand)
			pre := strings.Join(toks[:pos], ",")
			suf := strings.Join(toks[pos:], ",")
			emit(fmt.Sprintf("ext %s %s %s %s %s", f, optsFor(r, f), pre, x, suf))
		}
	}
}

// --------------------------------------------------------------------------- C16

func genC16(f string) GenFn {
	return func(r *Rand, tier string, emit func(string)) {
		// exhaustive fault index for small streams / documents
		n := tierN(tier, 250, 4000)
		for i := 0; i < n; i++ {
			v := r.Val(ValOpts{MaxDepth: 3, MaxWidth: 3, MaxStr: 12}, 0)
			toks := r.Render(v, renderOptsFor(r, f), nil)
			if len(toks) > 30 {
				continue
			}
			opts := optsFor(r, f)
			for k := 0; k <= 2*len(toks)+3; k++ {
				emit(fmt.Sprintf("enc %s %s %d %s", f, opts, k, strings.Join(toks, ",")))
			}
		}
		for _, x := range extTokens(r) {
			for k := 0; k < 8; k++ {
				emit(fmt.Sprintf("enc %s - %d [-1:0,%s,]", f, k, x))
			}
		}
		m := tierN(tier, 250, 4000)
		entries := []string{"P", "W", "R"}
		for i := 0; i < m; i++ {
			v := r.valFor(f, "quick")
			doc := r.WireDoc(f, v, r.P(40))
			if len(doc) > 120 {
				continue
			}
			nev := 40
			entry := Pick(r, entries)
			chunks := [][]byte{doc}
			if entry != "P" {
				chunks = r.RandChunks(doc)
			}
			for k := 0; k < nev; k++ {
				emit(fmt.Sprintf("parse %s %s %d %s", f, entry, k, ChunksString(chunks)))
			}
		}
	}
}

// --------------------------------------------------------------------------- C17

func genC17(f string) GenFn {
	return func(r *Rand, tier string, emit func(string)) {
		n := tierN(tier, 1200, 20000)
		maxDocs := 8
		if tier == "thorough" {
			maxDocs = 24
		}
		for i := 0; i < n; i++ {
			k := 1 + r.Intn(maxDocs)
			var docs []string
			for d := 0; d < k; d++ {
				v := r.Val(ValOpts{MaxDepth: 3, MaxWidth: 3, MaxStr: 20}, 0)
				toks := r.Render(v, renderOptsFor(r, f), nil)
				if r.P(25) {
					toks = []string{Pick(r, extTokens(r))}
					if strings.HasPrefix(toks[0], "R:") {
						toks = []string{"N"}
					}
				}
				docs = append(docs, strings.Join(toks, ","))
			}
			emit(fmt.Sprintf("reuse-enc %s %s %s", f, optsFor(r, f), strings.Join(docs, ";")))
		}
		for i := 0; i < n; i++ {
			k := 1 + r.Intn(maxDocs)
			var docs []string
			for d := 0; d < k; d++ {
				v := r.valFor(f, "quick")
				doc := r.WireDoc(f, v, r.P(30))
				if f == "json" && r.P(50) {
					doc = append(doc, ' ')
				}
				docs = append(docs, hx(doc))
			}
			emit(fmt.Sprintf("reuse-parse %s %s %s", f, Pick(r, []string{"P", "W"}), strings.Join(docs, ";")))
		}
	}
}

// --------------------------------------------------------------------------- C08

func genC08(r *Rand, tier string, emit func(string)) {
	n := tierN(tier, 600, 12000)
	for _, src := range ModelledFormats {
		for _, dst := range ModelledFormats {
			for i := 0; i < n; i++ {
				var doc []byte
				nd := 1
				if r.P(25) {
					nd = 2 + r.Intn(3)
				}
				o := valOptsFor(src, tier)
				if dst == "json" || src == "json" {
					o.FiniteOnly = true
				}
				if dst == "ubj" || src == "ubj" {
					o.IntMax63 = true
				}
				for d := 0; d < nd; d++ {
					var v *V
					if nd > 1 {
						v = r.Container(o)
					} else {
						v = r.Val(o, 0)
					}
					doc = append(doc, r.WireDoc(src, v, r.P(30))...)
					if src == "json" {
						doc = append(doc, ' ')
					}
				}
				if len(doc) > 2000 {
					continue
				}
				emit(fmt.Sprintf("xcode %s %s %s %s", src, dst, optsFor(r, dst), ChunksString(r.RandChunks(doc))))
			}
		}
	}
}

// --------------------------------------------------------------------------- C09 (codec part)

func genC09Codec(f string) GenFn {
	return func(r *Rand, tier string, emit func(string)) {
		genConformance(f)(r, tier, emit)
	}
}

// --------------------------------------------------------------------------- C18

func genC18(f string) GenFn {
	return func(r *Rand, tier string, emit func(string)) {
		genDecOps(f, 2500)(r, tier, emit)
	}
}

// asRT: turns the fault-free `enc` lines of an encoder generator into `rt` lines
func asRT(g GenFn) GenFn {
	return func(r *Rand, tier string, emit func(string)) {
		g(r, tier, func(line string) {
			f := strings.Fields(line)
			if len(f) == 5 && f[0] == "enc" && f[3] == "-1" {
				emit("rt " + f[1] + " " + f[2] + " " + f[4])
			}
		})
	}
}

// asChunk: turns the fault-free `parse` lines of a parser generator into `chunk` lines
// (W/R lines keep their chunking; whole-buffer lines of short documents get the 1-byte
// chunking and every two-way cut)
func asChunk(g GenFn) GenFn {
	return func(r *Rand, tier string, emit func(string)) {
		g(r, tier, func(line string) {
			f := strings.Fields(line)
			if len(f) != 5 || f[0] != "parse" || f[3] != "-1" {
				return
			}
			switch f[2] {
			case "W", "R":
				emit("chunk " + f[1] + " " + f[2] + " " + f[4])
			default:
				doc := bytes.Join(Chunks(f[4]), nil)
				if len(doc) < 2 || len(doc) > 48 {
					return
				}
				var one [][]byte
				for j := range doc {
					one = append(one, doc[j:j+1])
				}
				emit("chunk " + f[1] + " W " + ChunksString(one))
				// every two-way cut for a sample of the documents, two random cuts for the rest
				if r.P(8) {
					for c := 1; c < len(doc); c++ {
						emit("chunk " + f[1] + " " + Pick(r, []string{"W", "R"}) + " " + ChunksString([][]byte{doc[:c], doc[c:]}))
					}
				} else {
					for k := 0; k < 2; k++ {
						c := 1 + r.Intn(len(doc)-1)
						emit("chunk " + f[1] + " " + Pick(r, []string{"W", "R"}) + " " + ChunksString([][]byte{doc[:c], doc[c:]}))
					}
				}
			}
		})
	}
}

// onlyOp keeps the lines of the given op
func onlyOp(op string, g GenFn) GenFn {
	return func(r *Rand, tier string, emit func(string)) {
		g(r, tier, func(line string) {
			if strings.HasPrefix(line, op+" ") {
				emit(line)
			}
		})
	}
}

func init() {
	// targeted generators written with the mirrors (gen_json.go, gen_ubj.go)
	for _, g := range []GenFn{genJsonParseStrings, genJsonParseNumbers, genJsonParseStruct, genJsonShort, genJsonFloatSyntax} {
		RegisterGen("C04", onlyOp("parse", g))
		RegisterGen("C03", onlyOp("parse", g))
		RegisterGen("C02", asChunk(g))
		RegisterGen("C09", onlyOp("parse", g))
	}
	for _, g := range []GenFn{genUbjParseTargeted(), genUbjBigDoc()} {
		RegisterGen("C06", onlyOp("parse", g))
		RegisterGen("C03", onlyOp("parse", g))
		RegisterGen("C02", asChunk(g))
		RegisterGen("C09", onlyOp("parse", g))
	}
	for _, g := range []GenFn{genJsonEncStrings, genJsonEncFloats, genUbjEncTargeted()} {
		RegisterGen("C07", onlyOp("enc", g))
		RegisterGen("C01", asRT(g))
		RegisterGen("C16", onlyOp("enc", g))
	}
	RegisterGen("C18", onlyOp("dec", genJsonDecTargets))
	for _, f := range []string{"cbor", "ubj", "json"} {
		RegisterGen("C01", asRT(genExtEvents(f, false)))
	}
	RegisterGen("C01", forFormats(genC01))
	RegisterGen("C02", forFormats(genC02))
	RegisterGen("C03", forFormats(genC03))
	RegisterGen("C04", genConformance("json"))
	RegisterGen("C05", genConformance("cbor"))
	RegisterGen("C06", genConformance("ubj"))
	RegisterGen("C07", forFormats(genC07))
	RegisterGen("C08", genC08)
	RegisterGen("C09", forFormats(genC09Codec))
	RegisterGen("C10", forFormats(genC10))
	RegisterGen("C16", forFormats(genC16))
	RegisterGen("C17", forFormats(genC17))
	RegisterGen("C18", forFormats(genC18))
	// C17 "a pull decoder reports the same events": every Next after the first is a use of a
	// decoder that has completely processed documents
	RegisterGen("C17", forFormats(genC18))
	RegisterGen("C17", onlyOp("dec", genJsonDecTargets))
}
