// Package sfh: shared pieces of the go-structform verification harness:
// the line protocol (DESIGN appendix C), a recording visitor, an event player.
package sfh

import (
	"encoding/hex"
	"errors"
	"fmt"
	"math"
	"strconv"
	"strings"

	structform "github.com/elastic/go-structform"
)

// Recorder is a structform.Visitor (+ StringRefVisitor) that records tokens.
// FailAt >= 0 makes the FailAt-th event (0-based) return ErrInjected.
type Recorder struct {
	Toks   []string
	FailAt int
	N      int
	// strings delivered BY VALUE (OnString / OnKey) are retained as they were handed over and
	// only formatted when the observation is printed: a producer that hands out a view of a
	// buffer it later reuses (C15) then shows up as a changed event
	held map[int]string
}

var ErrInjected = errors.New("injected failure")

func NewRecorder() *Recorder { return &Recorder{FailAt: -1} }

func (r *Recorder) add(t string) error {
	i := r.N
	r.N++
	r.Toks = append(r.Toks, t)
	if r.FailAt >= 0 && i >= r.FailAt {
		return ErrInjected
	}
	return nil
}

func (r *Recorder) String() string {
	if len(r.Toks) == 0 {
		return "-"
	}
	out := make([]string, len(r.Toks))
	copy(out, r.Toks)
	for i, s := range r.held {
		if i < len(out) {
			out[i] = out[i] + hx([]byte(s))
		}
	}
	return strings.Join(out, ",")
}

// Reset forgets the recorded events (between documents).
func (r *Recorder) Reset() {
	r.Toks = r.Toks[:0]
	r.held = nil
}

func (r *Recorder) hold(prefix string, s string) error {
	if r.held == nil {
		r.held = map[int]string{}
	}
	r.held[len(r.Toks)] = s
	return r.add(prefix)
}

func hx(b []byte) string { return hex.EncodeToString(b) }

func (r *Recorder) OnObjectStart(l int, bt structform.BaseType) error {
	return r.add(fmt.Sprintf("{%d:%d", l, int(bt)))
}
func (r *Recorder) OnObjectFinished() error { return r.add("}") }
func (r *Recorder) OnKey(s string) error    { return r.hold("K:", s) }
func (r *Recorder) OnArrayStart(l int, bt structform.BaseType) error {
	return r.add(fmt.Sprintf("[%d:%d", l, int(bt)))
}
func (r *Recorder) OnArrayFinished() error { return r.add("]") }
func (r *Recorder) OnNil() error           { return r.add("N") }
func (r *Recorder) OnBool(b bool) error {
	if b {
		return r.add("T")
	}
	return r.add("F")
}
func (r *Recorder) OnString(s string) error { return r.hold("S:", s) }
func (r *Recorder) OnInt8(i int8) error     { return r.add("i8:" + strconv.FormatInt(int64(i), 10)) }
func (r *Recorder) OnInt16(i int16) error   { return r.add("i16:" + strconv.FormatInt(int64(i), 10)) }
func (r *Recorder) OnInt32(i int32) error   { return r.add("i32:" + strconv.FormatInt(int64(i), 10)) }
func (r *Recorder) OnInt64(i int64) error   { return r.add("i64:" + strconv.FormatInt(i, 10)) }
func (r *Recorder) OnInt(i int) error       { return r.add("i:" + strconv.FormatInt(int64(i), 10)) }
func (r *Recorder) OnByte(b byte) error     { return r.add("b:" + strconv.FormatUint(uint64(b), 10)) }
func (r *Recorder) OnUint8(u uint8) error   { return r.add("u8:" + strconv.FormatUint(uint64(u), 10)) }
func (r *Recorder) OnUint16(u uint16) error { return r.add("u16:" + strconv.FormatUint(uint64(u), 10)) }
func (r *Recorder) OnUint32(u uint32) error { return r.add("u32:" + strconv.FormatUint(uint64(u), 10)) }
func (r *Recorder) OnUint64(u uint64) error { return r.add("u64:" + strconv.FormatUint(u, 10)) }
func (r *Recorder) OnUint(u uint) error     { return r.add("u:" + strconv.FormatUint(uint64(u), 10)) }
func (r *Recorder) OnFloat32(f float32) error {
	return r.add(fmt.Sprintf("f32:%08x", math.Float32bits(f)))
}
func (r *Recorder) OnFloat64(f float64) error {
	return r.add(fmt.Sprintf("f64:%016x", math.Float64bits(f)))
}

// RefRecorder additionally implements StringRefVisitor (printed as S/K like by-value).
type RefRecorder struct{ Recorder }

func NewRefRecorder() *RefRecorder { return &RefRecorder{Recorder{FailAt: -1}} }

func (r *RefRecorder) OnStringRef(s []byte) error { return r.add("S:" + hx(s)) }
func (r *RefRecorder) OnKeyRef(s []byte) error    { return r.add("K:" + hx(s)) }

// ---------------------------------------------------------------------------
// Player: turns xevent tokens into calls on an ExtVisitor.

func splitOnce(s string, sep byte) (string, string) {
	i := strings.IndexByte(s, sep)
	if i < 0 {
		return s, ""
	}
	return s[:i], s[i+1:]
}

func mustHex(s string) []byte {
	b, err := hex.DecodeString(s)
	if err != nil {
		panic("bad hex in op line: " + s)
	}
	return b
}

func elems(s string) []string {
	ns, rest := splitOnce(s, ':')
	n, err := strconv.Atoi(ns)
	if err != nil {
		panic("bad element count: " + s)
	}
	if n == 0 {
		return nil
	}
	parts := strings.Split(rest, "/")
	if len(parts) != n {
		panic("element count mismatch: " + s)
	}
	return parts
}

// PlayTok delivers one token to v. Typed maps are passed as Go maps, hence only
// deterministic for <= 1 entry.
func PlayTok(v structform.ExtVisitor, t string) error {
	switch {
	case t == "N":
		return v.OnNil()
	case t == "T":
		return v.OnBool(true)
	case t == "F":
		return v.OnBool(false)
	case t == "]":
		return v.OnArrayFinished()
	case t == "}":
		return v.OnObjectFinished()
	case t[0] == '[' || t[0] == '{':
		a, b := splitOnce(t[1:], ':')
		l, _ := strconv.Atoi(a)
		bt, _ := strconv.Atoi(b)
		if t[0] == '[' {
			return v.OnArrayStart(l, structform.BaseType(bt))
		}
		return v.OnObjectStart(l, structform.BaseType(bt))
	case t[0] == 'A':
		h, r := splitOnce(t[1:], ':')
		return playArr(v, h, elems(r))
	case t[0] == 'O':
		h, r := splitOnce(t[1:], ':')
		return playObj(v, h, elems(r))
	}
	h, r := splitOnce(t, ':')
	switch h {
	case "S":
		return v.OnString(string(mustHex(r)))
	case "R":
		return v.OnStringRef(mustHex(r))
	case "K":
		return v.OnKey(string(mustHex(r)))
	case "Q":
		return v.OnKeyRef(mustHex(r))
	case "f32":
		n, _ := strconv.ParseUint(r, 16, 32)
		return v.OnFloat32(math.Float32frombits(uint32(n)))
	case "f64":
		n, _ := strconv.ParseUint(r, 16, 64)
		return v.OnFloat64(math.Float64frombits(n))
	case "i8", "i16", "i32", "i64", "i":
		n, err := strconv.ParseInt(r, 10, 64)
		if err != nil {
			panic("bad int token " + t)
		}
		switch h {
		case "i8":
			return v.OnInt8(int8(n))
		case "i16":
			return v.OnInt16(int16(n))
		case "i32":
			return v.OnInt32(int32(n))
		case "i64":
			return v.OnInt64(n)
		default:
			return v.OnInt(int(n))
		}
	case "u8", "u16", "u32", "u64", "u", "b":
		n, err := strconv.ParseUint(r, 10, 64)
		if err != nil {
			panic("bad uint token " + t)
		}
		switch h {
		case "u8":
			return v.OnUint8(uint8(n))
		case "u16":
			return v.OnUint16(uint16(n))
		case "u32":
			return v.OnUint32(uint32(n))
		case "u64":
			return v.OnUint64(n)
		case "u":
			return v.OnUint(uint(n))
		default:
			return v.OnByte(byte(n))
		}
	}
	panic("unknown token " + t)
}

func pi(s string) int64 {
	n, err := strconv.ParseInt(s, 10, 64)
	if err != nil {
		panic("bad int elem " + s)
	}
	return n
}
func pu(s string) uint64 {
	n, err := strconv.ParseUint(s, 10, 64)
	if err != nil {
		panic("bad uint elem " + s)
	}
	return n
}
func ph(s string) uint64 {
	n, err := strconv.ParseUint(s, 16, 64)
	if err != nil {
		panic("bad hex elem " + s)
	}
	return n
}

func playArr(v structform.ExtVisitor, kind string, es []string) error {
	switch kind {
	case "bool":
		a := make([]bool, len(es))
		for i, e := range es {
			a[i] = e == "T"
		}
		return v.OnBoolArray(a)
	case "str":
		a := make([]string, len(es))
		for i, e := range es {
			a[i] = string(mustHex(e))
		}
		return v.OnStringArray(a)
	case "i8":
		a := make([]int8, len(es))
		for i, e := range es {
			a[i] = int8(pi(e))
		}
		return v.OnInt8Array(a)
	case "i16":
		a := make([]int16, len(es))
		for i, e := range es {
			a[i] = int16(pi(e))
		}
		return v.OnInt16Array(a)
	case "i32":
		a := make([]int32, len(es))
		for i, e := range es {
			a[i] = int32(pi(e))
		}
		return v.OnInt32Array(a)
	case "i64":
		a := make([]int64, len(es))
		for i, e := range es {
			a[i] = pi(e)
		}
		return v.OnInt64Array(a)
	case "i":
		a := make([]int, len(es))
		for i, e := range es {
			a[i] = int(pi(e))
		}
		return v.OnIntArray(a)
	case "b":
		a := make([]byte, len(es))
		for i, e := range es {
			a[i] = byte(pu(e))
		}
		return v.OnBytes(a)
	case "u8":
		a := make([]uint8, len(es))
		for i, e := range es {
			a[i] = uint8(pu(e))
		}
		return v.OnUint8Array(a)
	case "u16":
		a := make([]uint16, len(es))
		for i, e := range es {
			a[i] = uint16(pu(e))
		}
		return v.OnUint16Array(a)
	case "u32":
		a := make([]uint32, len(es))
		for i, e := range es {
			a[i] = uint32(pu(e))
		}
		return v.OnUint32Array(a)
	case "u64":
		a := make([]uint64, len(es))
		for i, e := range es {
			a[i] = pu(e)
		}
		return v.OnUint64Array(a)
	case "u":
		a := make([]uint, len(es))
		for i, e := range es {
			a[i] = uint(pu(e))
		}
		return v.OnUintArray(a)
	case "f32":
		a := make([]float32, len(es))
		for i, e := range es {
			a[i] = math.Float32frombits(uint32(ph(e)))
		}
		return v.OnFloat32Array(a)
	case "f64":
		a := make([]float64, len(es))
		for i, e := range es {
			a[i] = math.Float64frombits(ph(e))
		}
		return v.OnFloat64Array(a)
	}
	panic("unknown array kind " + kind)
}

func playObj(v structform.ExtVisitor, kind string, es []string) error {
	kv := func(e string) (string, string) {
		k, val := splitOnce(e, '=')
		return string(mustHex(k)), val
	}
	switch kind {
	case "bool":
		m := map[string]bool{}
		for _, e := range es {
			k, x := kv(e)
			m[k] = x == "T"
		}
		return v.OnBoolObject(m)
	case "str":
		m := map[string]string{}
		for _, e := range es {
			k, x := kv(e)
			m[k] = string(mustHex(x))
		}
		return v.OnStringObject(m)
	case "i8":
		m := map[string]int8{}
		for _, e := range es {
			k, x := kv(e)
			m[k] = int8(pi(x))
		}
		return v.OnInt8Object(m)
	case "i16":
		m := map[string]int16{}
		for _, e := range es {
			k, x := kv(e)
			m[k] = int16(pi(x))
		}
		return v.OnInt16Object(m)
	case "i32":
		m := map[string]int32{}
		for _, e := range es {
			k, x := kv(e)
			m[k] = int32(pi(x))
		}
		return v.OnInt32Object(m)
	case "i64":
		m := map[string]int64{}
		for _, e := range es {
			k, x := kv(e)
			m[k] = pi(x)
		}
		return v.OnInt64Object(m)
	case "i":
		m := map[string]int{}
		for _, e := range es {
			k, x := kv(e)
			m[k] = int(pi(x))
		}
		return v.OnIntObject(m)
	case "u8":
		m := map[string]uint8{}
		for _, e := range es {
			k, x := kv(e)
			m[k] = uint8(pu(x))
		}
		return v.OnUint8Object(m)
	case "u16":
		m := map[string]uint16{}
		for _, e := range es {
			k, x := kv(e)
			m[k] = uint16(pu(x))
		}
		return v.OnUint16Object(m)
	case "u32":
		m := map[string]uint32{}
		for _, e := range es {
			k, x := kv(e)
			m[k] = uint32(pu(x))
		}
		return v.OnUint32Object(m)
	case "u64":
		m := map[string]uint64{}
		for _, e := range es {
			k, x := kv(e)
			m[k] = pu(x)
		}
		return v.OnUint64Object(m)
	case "u":
		m := map[string]uint{}
		for _, e := range es {
			k, x := kv(e)
			m[k] = uint(pu(x))
		}
		return v.OnUintObject(m)
	case "f32":
		m := map[string]float32{}
		for _, e := range es {
			k, x := kv(e)
			m[k] = math.Float32frombits(uint32(ph(x)))
		}
		return v.OnFloat32Object(m)
	case "f64":
		m := map[string]float64{}
		for _, e := range es {
			k, x := kv(e)
			m[k] = math.Float64frombits(ph(x))
		}
		return v.OnFloat64Object(m)
	}
	panic("unknown object kind " + kind)
}

// Toks splits an xevents field.
func Toks(s string) []string {
	if s == "-" || s == "" {
		return nil
	}
	return strings.Split(s, ",")
}

// Chunks parses a chunks field.
func Chunks(s string) [][]byte {
	if s == "-" {
		return nil
	}
	var out [][]byte
	for _, c := range strings.Split(s, ",") {
		if c == "_" {
			out = append(out, []byte{})
		} else {
			out = append(out, mustHex(c))
		}
	}
	return out
}

func ChunksString(cs [][]byte) string {
	if len(cs) == 0 {
		return "-"
	}
	ss := make([]string, len(cs))
	for i, c := range cs {
		ss[i] = Hxe(c)
	}
	return strings.Join(ss, ",")
}

func Hex(b []byte) string { return hx(b) }

// Hxe: hex, with "_" for the empty string (for dot-joined lists).
func Hxe(b []byte) string {
	if len(b) == 0 {
		return "_"
	}
	return hx(b)
}
func UnHex(s string) []byte { return mustHex(s) }

// ExpandTok: the basic-event expansion (array.go / map.go / string.go) of one
// extended token; basic tokens expand to themselves. Typed maps expand in the
// order their entries are written in the token.
func ExpandTok(t string) []string {
	bt := map[string]int{"bool": 3, "str": 2, "i": 5, "i8": 6, "i16": 7, "i32": 8, "i64": 9, "u": 10, "u8": 11, "u16": 12, "u32": 13, "u64": 14, "f32": 15, "f64": 16, "b": 1}
	elem := func(kind, e string) string {
		switch kind {
		case "bool":
			return e
		case "str":
			return "S:" + e
		case "f32", "f64":
			return kind + ":" + e
		default:
			return kind + ":" + e
		}
	}
	switch {
	case strings.HasPrefix(t, "R:"):
		return []string{"S:" + t[2:]}
	case strings.HasPrefix(t, "Q:"):
		return []string{"K:" + t[2:]}
	case t[0] == 'A':
		h, r := splitOnce(t[1:], ':')
		es := elems(r)
		out := []string{fmt.Sprintf("[%d:%d", len(es), bt[h])}
		for _, e := range es {
			out = append(out, elem(h, e))
		}
		return append(out, "]")
	case t[0] == 'O':
		h, r := splitOnce(t[1:], ':')
		es := elems(r)
		out := []string{fmt.Sprintf("{%d:%d", len(es), bt[h])}
		for _, e := range es {
			k, v := splitOnce(e, '=')
			out = append(out, "K:"+k, elem(h, v))
		}
		return append(out, "}")
	}
	return []string{t}
}
