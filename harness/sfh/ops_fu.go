package sfh

// ops_fu.go — property C11: Fold then Unfold reproduces the value, directly or via a codec.
//
//	fu <type> <value> <path>        path = direct | json | ubjson | cborl
//	  -> <final value>|<ok|err:target|err:fold|err:parse|panic:target|panic:fold|panic:parse|fatal>
//
// type / value: grammar of gotypes.go.  A fresh zero target of the same type is created and
// NewUnfolder(&target) called first (err:target).  direct: Iterator.Fold(value) drives the
// Unfolder (err:fold = Fold returned an error, whoever raised it).  Codec paths: Fold into the
// format's encoder (NewVisitor over a buffer; err:fold), then the format's ParseReader over
// the bytes drives the Unfolder (err:parse = the parser returned an error, whoever raised it).
// The final value is printed for ok only ("-" otherwise: a failing run stops wherever Go's
// map order had taken it).  A run that kills the process (stack overflow) is "-|fatal".

import (
	"bytes"
	"fmt"
	"os"
	"reflect"
	"runtime"
	"strings"

	structform "github.com/elastic/go-structform"
	"github.com/elastic/go-structform/gotype"
)

var fuFormats = map[string]string{"json": "json", "ubjson": "ubj", "cborl": "cbor"}

func fuStage(f func() error) (verdict string) {
	defer func() {
		if r := recover(); r != nil {
			if os.Getenv("VERIF_DEBUG") != "" {
				buf := make([]byte, 4096)
				n := runtime.Stack(buf, false)
				fmt.Fprintf(os.Stderr, "panic in fu stage: %v\n%s\n", r, buf[:n])
			}
			verdict = "panic"
		}
	}()
	if err := f(); err != nil {
		return "err"
	}
	return "ok"
}

func opFu(args []string) string {
	if len(args) != 3 {
		return "bad-op"
	}
	t := ParseType(args[0])
	v := ParseValue(t, args[1])
	path := args[2]
	if !isChild && (typeCyclic(t, map[reflect.Type]bool{}) || riskyValue(v, 0)) {
		out := runIsolated("fu "+strings.Join(args, " "), false)
		if out == "fatal" {
			return "-|fatal"
		}
		return out
	}

	target := reflect.New(t)
	var u *gotype.Unfolder
	switch fuStage(func() (err error) { u, err = gotype.NewUnfolder(target.Interface()); return }) {
	case "err":
		return "-|err:target"
	case "panic":
		return "-|panic:target"
	}

	fold := func(vs structform.Visitor) string {
		return fuStage(func() error {
			it, err := gotype.NewIterator(vs, UserFolders())
			if err != nil {
				return err
			}
			return it.Fold(foldArg(v))
		})
	}

	if path == "direct" {
		switch fold(u) {
		case "err":
			return "-|err:fold"
		case "panic":
			return "-|panic:fold"
		}
		return PrintValue(target.Elem()) + "|ok"
	}

	f, ok := Formats[fuFormats[path]]
	if !ok {
		return "bad-op"
	}
	var buf bytes.Buffer
	enc, _ := f.NewEncoder(&buf, "")
	switch fold(enc) {
	case "err":
		return "-|err:fold"
	case "panic":
		return "-|panic:fold"
	}
	var chunks [][]byte
	if buf.Len() > 0 {
		chunks = [][]byte{buf.Bytes()}
	}
	switch fuStage(func() error { _, err := f.ParseReader(&ChunkReader{Chunks: chunks}, u); return err }) {
	case "err":
		return "-|err:parse"
	case "panic":
		return "-|panic:parse"
	}
	return PrintValue(target.Elem()) + "|ok"
}

func init() {
	RegisterOp("fu", opFu)
}
