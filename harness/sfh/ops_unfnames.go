package sfh

import (
	"bytes"
	"fmt"

	"github.com/elastic/go-structform/gotype"
	"github.com/elastic/go-structform/json"
)

// Struct targets whose exported field names start with NON-ASCII upper-case letters (legal Go;
// the member name is the lower-cased field name, Unicode-aware, unless a tag names it). The
// mirror's menagerie has ASCII names only, so this op checks itself: a document written by
// hand with the expected member names must assign every field (C13), and Fold followed by
// Unfold must reproduce the value (C11).

type UUniIn struct {
	Ünter int
	Ok    string
}

type UUni struct {
	Ärger int
	Émis  string
	Ωmega []int
	ЖУК   bool
	Plain int
	Ñan   float64 `struct:"ñ"`
	Üb    UUniIn
	Ín    UUniIn `struct:",inline"`
}

type UUniBox struct {
	L []UUni
	M map[string]UUni
	P *UUni
	Ö UUni
}

const uniDoc = `{"ärger":7,"émis":"x","ωmega":[1,2],"жук":true,"plain":3,"ñ":1.5,"üb":{"ünter":4,"ok":"a"},"ünter":5,"ok":"b"}`

var uniVal = UUni{Ärger: 7, Émis: "x", Ωmega: []int{1, 2}, ЖУК: true, Plain: 3, Ñan: 1.5, Üb: UUniIn{4, "a"}, Ín: UUniIn{5, "b"}}

// unf-names <position top|slice|map|ptr|field> <path doc|fold>
//
//	-> same | differ:<got> | err:<error> | panic
func opUnfNames(args []string) (res string) {
	defer func() {
		if r := recover(); r != nil {
			res = "panic"
		}
	}()
	var want, target interface{}
	var doc string
	switch args[0] {
	case "top":
		want, target, doc = &uniVal, &UUni{}, uniDoc
	case "slice":
		want, target, doc = &UUniBox{L: []UUni{uniVal, uniVal}}, &UUniBox{}, `{"l":[`+uniDoc+`,`+uniDoc+`]}`
	case "map":
		want, target, doc = &UUniBox{M: map[string]UUni{"k": uniVal}}, &UUniBox{}, `{"m":{"k":`+uniDoc+`}}`
	case "ptr":
		v := uniVal
		want, target, doc = &UUniBox{P: &v}, &UUniBox{}, `{"p":`+uniDoc+`}`
	case "field":
		want, target, doc = &UUniBox{Ö: uniVal}, &UUniBox{}, `{"ö":`+uniDoc+`}`
	default:
		return "bad-op"
	}
	u, err := gotype.NewUnfolder(target)
	if err != nil {
		return "err:" + err.Error()
	}
	if args[1] == "doc" {
		err = json.NewParser(u).ParseString(doc)
	} else {
		err = gotype.Fold(want, u)
	}
	if err != nil {
		return "err:" + err.Error()
	}
	// nil and empty containers are identified (a nil map folds to an empty object, which unfolds
	// to an empty map): compare the two values as documents
	if a, b := uniRender(want), uniRender(target); a != b {
		return fmt.Sprintf("differ:%s", b)
	}
	return "same"
}

func uniRender(v interface{}) string {
	var buf bytes.Buffer
	if err := gotype.Fold(v, json.NewVisitor(&buf)); err != nil {
		return "err:" + err.Error()
	}
	return buf.String()
}

func genUnfNames(r *Rand, tier string, emit func(string)) {
	for _, p := range []string{"top", "slice", "map", "ptr", "field"} {
		for _, k := range []string{"doc", "fold"} {
			emit("unf-names " + p + " " + k)
		}
	}
}

func init() {
	RegisterOp("unf-names", opUnfNames)
	for _, p := range []string{"C13", "C11", "XUNF"} {
		RegisterGen(p, genUnfNames)
	}
}
