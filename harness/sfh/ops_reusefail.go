package sfh

import (
	"strings"
)

// reuse-parse-f json <doc>;<doc>;...      (docs = hex, "-" = empty)
//
//	ONE json.Parser, Parse called for document after document, including documents it REFUSES
//	(json.Parser.Parse starts every call from the idle state, whatever the call before left
//	behind); each document also on a parser of its own
//	-> <verdict:events / verdict:events ...>|<the same on new parsers>
func opReuseParseF(args []string) string {
	f := Formats[args[0]]
	docs := strings.Split(args[1], ";")
	rec := NewRecorder()
	p := f.NewParser(rec)
	var a, b []string
	for _, d := range docs {
		var raw []byte
		if d != "-" {
			raw = mustHex(d)
		}
		rec.Reset()
		err := p.Parse(raw)
		a = append(a, ErrClass(err)+":"+rec.String())
		rec2 := NewRecorder()
		err2 := f.NewParser(rec2).Parse(raw)
		b = append(b, ErrClass(err2)+":"+rec2.String())
	}
	return strings.Join(a, "/") + "|" + strings.Join(b, "/")
}

// genJsonReuseAfterRefusal: a document cut anywhere (inside a string, a key, a number, a literal,
// an escape, between structural characters), refused for ending early, followed by the rest of
// that document (which on its own is no JSON text, or a different one), by complete documents
// and by further fragments
func genJsonReuseAfterRefusal(r *Rand, tier string, emit func(string)) {
	fixed := []string{
		`{"items":[1,2,3]}`, `{"msg":"hello"}`, `[[[]]]`, `{"a":{"b":{"c":null}}}`, `[true,false,null]`,
		`["a\\b\"cé"]`, `{"kA":12.5e3}`, `[1.5,-2,"x"]`, `"top"`, `[ 1 , 2 ]`, `{"a":1,"b":[{"c":"d"}]}`,
	}
	follow := []string{`{}`, `[]`, `1 `, `"s"`, `null`, `[1]`, `{"z":0}`}
	h := func(b []byte) string {
		if len(b) == 0 {
			return "-"
		}
		return hx(b)
	}
	one := func(doc []byte, cut int) {
		pre, rest := doc[:cut], doc[cut:]
		emit("reuse-parse-f json " + strings.Join([]string{h(pre), h(rest)}, ";"))
		emit("reuse-parse-f json " + strings.Join([]string{h(pre), h(rest), h([]byte(Pick(r, follow)))}, ";"))
		emit("reuse-parse-f json " + strings.Join([]string{h(pre), h([]byte(Pick(r, follow))), h(rest)}, ";"))
		if r.P(30) && cut > 1 {
			c2 := 1 + r.Intn(cut-1)
			emit("reuse-parse-f json " + strings.Join([]string{h(doc[:c2]), h(doc[c2:cut]), h(rest), h(doc)}, ";"))
		}
	}
	for _, s := range fixed {
		doc := []byte(s)
		for cut := 1; cut < len(doc); cut++ {
			if tier == "quick" && len(doc) > 12 && !r.P(50) {
				continue
			}
			one(doc, cut)
		}
	}
	n := tierN(tier, 150, 4000)
	for i := 0; i < n; i++ {
		v := r.valFor("json", "quick")
		doc := r.WireDoc("json", v, r.P(30))
		if len(doc) < 2 || len(doc) > 200 {
			continue
		}
		one(doc, 1+r.Intn(len(doc)-1))
	}
}

func init() {
	RegisterOp("reuse-parse-f", opReuseParseF)
	for _, p := range []string{"C09", "C04", "C17", "XJSON"} {
		RegisterGen(p, genJsonReuseAfterRefusal)
	}
}
