package sfh

import (
	"bytes"
	"fmt"
	"reflect"
	"runtime"
	"strconv"
	"strings"
	"sync"

	structform "github.com/elastic/go-structform"
	"github.com/elastic/go-structform/cborl"
	"github.com/elastic/go-structform/gotype"
	"github.com/elastic/go-structform/json"
	"github.com/elastic/go-structform/ubjson"
)

// shared Go types and shared input values for the concurrency op
type concInner struct {
	A int               `struct:"a"`
	B []string          `struct:"b,omitempty"`
	C map[string]uint16 `struct:"c"`
}
type concOuter struct {
	Name  string
	In    concInner `struct:",inline"`
	Ptr   *concInner
	List  []concInner
	Any   interface{}
	F     float64
	Bytes []byte
}

// named container types (each takes the named-type conversion path of Fold)
type cuAttrs map[string]interface{}
type cuIDs []int
type cuArr [2]int
type cuStrs []string
type cuM2 map[string]int

var concInputs = []interface{}{
	cuAttrs{"a": int64(1), "b": cuIDs{1, 2}},
	cuIDs{3, 4, 5},
	cuArr{6, 7},
	cuStrs{"x", "y"},
	cuM2{"k": 1},
	[]interface{}{cuIDs{1}, cuStrs{"s"}, cuArr{1, 2}, cuM2{"z": 9}, cuAttrs{"q": cuStrs{"w"}}},
	map[string]interface{}{"x": int64(1), "y": []interface{}{"a", nil, true, 2.5}},
	concOuter{Name: "n", In: concInner{A: -7, C: map[string]uint16{"k": 65535}}, Ptr: &concInner{A: 1, B: []string{"é", ""}},
		List: []concInner{{A: 2}, {A: 3, B: []string{"z"}}}, Any: map[string]interface{}{"q": uint64(18446744073709551615)}, F: 3.25, Bytes: []byte{0, 255}},
	[]int16{-200, 0, 32767},
	map[string]string{"a": "b"},
	[]concInner{{A: 1}, {A: 2}},
	// strings and keys that need every kind of JSON escape (generic \u00XX with different
	// digits, short escapes, HTML escapes, multi-byte runes, invalid UTF-8), floats of every
	// formatting path, wide integers: scratch buffers of the encoders
	map[string]string{"k\x01": "a\x02b", "<": ">&\x1f"},
	[]string{"\x00", "\x1e\x1d", "q\"\\\n\r\t", "é€😀", "\xff\xfe", "<script>&amp;</script>", "\u2028\u2029"},
	[]float64{1e21, 1e-7, 0.1, -0.0, 123456789.125, 5e-324, 1.7976931348623157e308},
	[]float32{3.4028235e38, 1e-45, 0.3},
	[]uint64{0, 255, 65535, 4294967295, 18446744073709551615},
	[]int64{-1, -129, -32769, -2147483649, -9223372036854775808},
	concOuter{Name: "\x03\x04", In: concInner{A: 9, B: []string{"\x05"}, C: map[string]uint16{"\x06": 1}}, Any: []interface{}{"\x07", int8(-8)}},
}

type codec struct {
	enc   func(*bytes.Buffer) structform.Visitor
	parse func([]byte, structform.Visitor) error
}

var concCodecs = []codec{
	{func(b *bytes.Buffer) structform.Visitor { return cborl.NewVisitor(b) }, cborl.Parse},
	{func(b *bytes.Buffer) structform.Visitor { return ubjson.NewVisitor(b) }, ubjson.Parse},
	{func(b *bytes.Buffer) structform.Visitor { return json.NewVisitor(b) }, json.Parse},
}

// one pipeline: fold -> encode -> parse -> unfold into a fresh value of the same type;
// the result is rendered through the JSON encoder
func concPipeline(in interface{}, c codec) string {
	var buf bytes.Buffer
	it, err := gotype.NewIterator(c.enc(&buf))
	if err != nil {
		return "err:iter"
	}
	if err := it.Fold(in); err != nil {
		return "err:fold"
	}
	out := reflect.New(reflect.TypeOf(in))
	u, err := gotype.NewUnfolder(out.Interface())
	if err != nil {
		return "err:unfolder"
	}
	if err := c.parse(buf.Bytes(), u); err != nil {
		return "err:parse:" + err.Error()
	}
	var js bytes.Buffer
	if err := gotype.Fold(out.Elem().Interface(), json.NewVisitor(&js)); err != nil {
		return "err:refold"
	}
	return hx(buf.Bytes()) + "=>" + js.String()
}

// a LONG-LIVED Unfolder per goroutine, Reset and given a new target for every document (state that
// Reset re-installs from a shared template would be common to all of them): nested arrays into
// interface{} targets, fed in chunks with a scheduling point between the chunks
func concReuseDoc(g int) []byte {
	return []byte(fmt.Sprintf(`{"a":[%d,[%d,[%d,"x%d"]],"s%d"],"b":[[%d],[[%d]]],"c":{"d":[%d,%d]}}`, g, g+1, g+2, g, g, g+3, g+4, g+5, g+6))
}

func concReusePipeline(g int, u *gotype.Unfolder, yield func()) string {
	var out interface{}
	u.Reset()
	if err := u.SetTarget(&out); err != nil {
		return "err:settarget"
	}
	p := json.NewParser(u)
	doc := concReuseDoc(g)
	for i := 0; i < len(doc); i += 3 {
		end := i + 3
		if end > len(doc) {
			end = len(doc)
		}
		if _, err := p.Write(doc[i:end]); err != nil {
			return "err:parse:" + err.Error()
		}
		yield()
	}
	return fmt.Sprintf("%v", out)
}

// conc <goroutines> <rounds>
//
//	-> equal | differ:<goroutine>:<index>
func opConc(args []string) string {
	n, _ := strconv.Atoi(args[0])
	rounds, _ := strconv.Atoi(args[1])
	var seq []string
	for _, in := range concInputs {
		for _, c := range concCodecs {
			seq = append(seq, concPipeline(in, c))
		}
	}
	userSeq := make([]string, n)
	for g := 0; g < n; g++ {
		userSeq[g] = concUserPipeline(cuInput(g), func() {})
		if !strings.Contains(userSeq[g], fmt.Sprintf("Level:%d ", 1+g%3)) || !strings.Contains(userSeq[g], fmt.Sprintf("Exp:%d ", 1000+g)) {
			return "differ:sequential-user-pipeline:" + userSeq[g]
		}
	}
	streamSeq := make([]string, n)
	for g := 0; g < n; g++ {
		streamSeq[g] = concStreamPipeline(g, func() {})
		if strings.Contains(streamSeq[g], "=err") {
			return "differ:sequential-stream-pipeline"
		}
	}
	reuseSeq := make([]string, n)
	for g := 0; g < n; g++ {
		u, _ := gotype.NewUnfolder(nil)
		reuseSeq[g] = concReusePipeline(g, u, func() {})
	}
	res := make([]string, n)
	var wg sync.WaitGroup
	for g := 0; g < n; g++ {
		wg.Add(1)
		go func(g int) {
			defer wg.Done()
			defer func() {
				if r := recover(); r != nil {
					res[g] = fmt.Sprintf("panic:%d", g)
				}
			}()
			own, _ := gotype.NewUnfolder(nil)
			for round := 0; round < rounds; round++ {
				if got, want := concReusePipeline(g, own, runtime.Gosched), reuseSeq[g]; got != want {
					res[g] = fmt.Sprintf("differ:%d:reused-unfolder", g)
					return
				}
				// instances built from shared option values, documents in chunks with a
				// scheduling point between the chunks
				if got, want := concUserPipeline(cuInput(g), runtime.Gosched), userSeq[g]; got != want {
					res[g] = fmt.Sprintf("differ:%d:user", g)
					return
				}
				if round >= 8 && round%10 != 0 {
					// the streaming pipeline is the expensive part: every round at first, then every tenth
				} else if got, want := concStreamPipeline(g, runtime.Gosched), streamSeq[g]; got != want {
					res[g] = fmt.Sprintf("differ:%d:stream", g)
					return
				}
				i := 0
				// goroutines start at different inputs so that first-use and cached-use of a type overlap
				for k := range concInputs {
					in := concInputs[(k+g)%len(concInputs)]
					for ci, c := range concCodecs {
						want := seq[((k+g)%len(concInputs))*len(concCodecs)+ci]
						if got := concPipeline(in, c); got != want {
							// map iteration order may legitimately differ for multi-entry maps: compare lengths then
							if len(got) != len(want) {
								res[g] = fmt.Sprintf("differ:%d:%d", g, i)
								return
							}
						}
						i++
					}
				}
			}
			res[g] = "ok"
		}(g)
	}
	wg.Wait()
	for _, r := range res {
		if r != "ok" {
			return r
		}
	}
	return "equal"
}

func genConc(r *Rand, tier string, emit func(string)) {
	rounds := 20
	if tier == "thorough" {
		rounds = 300
	}
	for _, n := range []int{2, 8, 32} {
		emit(fmt.Sprintf("conc %d %d", n, rounds))
	}
}

func init() {
	RegisterOp("conc", opConc)
	RegisterGen("C19", genConc)
}
