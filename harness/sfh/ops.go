package sfh

import (
	"fmt"
	"os"
	"runtime"
	"strings"
	"time"
)

// OpFn runs one operation line against the real library and returns the
// canonical one-line observation.
type OpFn func(args []string) string

var Ops = map[string]OpFn{}

// GenFn emits operation lines for one property.
type GenFn func(r *Rand, tier string, emit func(line string))

var Gens = map[string][]GenFn{}

func RegisterOp(name string, f OpFn)   { Ops[name] = f }
func RegisterGen(prop string, g GenFn) { Gens[prop] = append(Gens[prop], g) }

var leaked int

// Guard runs f under recover and a deadline. A panic yields "panic", a missed
// deadline "hang" (the goroutine is leaked; after a few leaks the process
// exits with status 3 so that the driver restarts it past the offender).
func Guard(timeout time.Duration, f func() string) (out string) {
	ch := make(chan string, 1)
	go func() {
		defer func() {
			if r := recover(); r != nil {
				if os.Getenv("VERIF_DEBUG") != "" {
					buf := make([]byte, 4096)
					n := runtime.Stack(buf, false)
					fmt.Fprintf(os.Stderr, "panic: %v\n%s\n", r, buf[:n])
				}
				ch <- "panic"
			}
		}()
		ch <- f()
	}()
	select {
	case s := <-ch:
		return s
	case <-time.After(timeout):
		leaked++
		return "hang"
	}
}

func Leaked() int { return leaked }

// RunLine executes "op arg arg ..." and returns the observation.
func RunLine(line string) string {
	f := strings.Fields(line)
	if len(f) == 0 {
		return "bad-op"
	}
	op, ok := Ops[f[0]]
	if !ok {
		return "bad-op"
	}
	// many goroutines x many rounds (and 10x slower under the race detector): a deadline that is
	// only there to catch a real hang
	timeout := 10 * time.Second
	if f[0] == "conc" {
		timeout = 300 * time.Second
	}
	return Guard(timeout, func() string { return op(f[1:]) })
}

func ErrClass(err error) string {
	if err == nil {
		return "ok"
	}
	if err == ErrInjected {
		return "err:injected"
	}
	return "err"
}

func Depths(d []int) string {
	ss := make([]string, len(d))
	for i, x := range d {
		ss[i] = fmt.Sprint(x)
	}
	return "d=" + strings.Join(ss, ".")
}
