package sfh

import (
	"sort"
	"strconv"
	"strings"

	"github.com/elastic/go-structform/gotype"
)

// lru <cap> <key,key,...>
// Unfolds one object {key: 1, ...} with by-reference keys into a map[string]int
// with EnableKeyCache(cap). Observation: per key the cache's recency order
// (oldest first) and map size via hook, then the sorted key set of the target.
//
//	<order>/<maplen>;...|<sorted keys>        order = hex.hex.hex or "-" ; "off" if cache disabled
func opLRU(args []string) string {
	cap, _ := strconv.Atoi(args[0])
	keys := Chunks(args[1])
	var to map[string]int
	u, err := gotype.NewUnfolder(&to)
	if err != nil {
		return "err"
	}
	u.EnableKeyCache(cap)
	// optional configuration history: EnableKeyCache(c) again before key number pos
	re := map[int][]int{}
	if len(args) > 2 && args[2] != "-" {
		for _, pc := range strings.Split(args[2], ",") {
			f := strings.SplitN(pc, ":", 2)
			pos, _ := strconv.Atoi(f[0])
			c, _ := strconv.Atoi(f[1])
			re[pos] = append(re[pos], c)
		}
	}
	if err := u.OnObjectStart(-1, 0); err != nil {
		return "err"
	}
	var steps []string
	for ki, k := range keys {
		for _, c := range re[ki] {
			u.EnableKeyCache(c)
		}
		kk := append([]byte(nil), k...)
		if err := u.OnKeyRef(kk); err != nil {
			return "err"
		}
		for i := range kk { // scribble the source bytes: cached keys must be copies
			kk[i] ^= 0xff
		}
		if err := u.OnInt(1); err != nil {
			return "err"
		}
		steps = append(steps, lruState(u))
	}
	if err := u.OnObjectFinished(); err != nil {
		return "err"
	}
	var ks []string
	for k := range to {
		ks = append(ks, Hxe([]byte(k)))
	}
	sort.Strings(ks)
	return strings.Join(steps, ";") + "|" + strings.Join(ks, ".")
}

func lruState(u *gotype.Unfolder) string {
	order, n, ok := hookKeyCacheOrder(u)
	if !ok {
		return "off"
	}
	hs := make([]string, len(order))
	for i, k := range order {
		hs[i] = Hxe([]byte(k))
	}
	s := strings.Join(hs, ".")
	if s == "" {
		s = "-"
	}
	return s + "/" + strconv.Itoa(n)
}

func genLRU(r *Rand, tier string, emit func(string)) {
	n := 400
	if tier == "thorough" {
		n = 20000
	}
	// corpus: capacity 0 (F28), negative, eviction + re-insertion
	emit("lru 0 6b31,6b31,6b32")
	emit("lru -1 6b31")
	emit("lru 2 01,02,01,03,02")
	emit("lru 1 61,62,61,61,62")
	for i := 0; i < n; i++ {
		cap := r.Intn(8) - 1
		alpha := cap - 1 + r.Intn(5)
		if alpha < 1 {
			alpha = 1
		}
		m := r.Intn(14)
		var ks [][]byte
		for j := 0; j < m; j++ {
			c := r.Intn(alpha)
			k := []byte{byte('a' + c)}
			if c%3 == 2 {
				k = append(k, 'x', byte(c))
			}
			if c == 4 {
				k = []byte{}
			}
			ks = append(ks, k)
		}
		emit("lru " + strconv.Itoa(cap) + " " + ChunksString(ks))
		// the same history with the capacity changed on the way (also to and from 0 / negative,
		// also before the first key and twice in a row)
		if m > 0 {
			var re []string
			for j := 0; j < 1+r.Intn(3); j++ {
				re = append(re, strconv.Itoa(r.Intn(m))+":"+strconv.Itoa(r.Intn(7)-1))
			}
			emit("lru " + strconv.Itoa(cap) + " " + ChunksString(ks) + " " + strings.Join(re, ","))
		}
	}
	for _, a := range []int{-1, 0, 1, 2, 5} {
		for _, b := range []int{-1, 0, 1, 2, 5} {
			emit("lru " + strconv.Itoa(a) + " 61,62,63,61,,62 0:" + strconv.Itoa(b))
			emit("lru " + strconv.Itoa(a) + " 61,62,63,61,,62 2:" + strconv.Itoa(b))
			emit("lru " + strconv.Itoa(a) + " 61,62,63,61,,62 0:" + strconv.Itoa(b) + ",0:" + strconv.Itoa(a) + ",4:" + strconv.Itoa(b))
		}
	}
}

func init() {
	RegisterOp("lru", opLRU)
	RegisterGen("C20", genLRU)
}
