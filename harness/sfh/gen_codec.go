package sfh

import (
	"fmt"
	"strings"
)

// shared generator pieces for the codec properties

func tierN(tier string, quick, thorough int) int {
	if tier == "thorough" {
		return thorough
	}
	return quick
}

func valOpts(tier string) ValOpts {
	if tier == "thorough" {
		return ValOpts{MaxDepth: 6, MaxWidth: 5, MaxStr: 300}
	}
	return ValOpts{MaxDepth: 4, MaxWidth: 4, MaxStr: 70}
}

// WireDoc: a valid wire document of fmt for value v (foreign-encoder style).
func (r *Rand) WireDoc(fmtName string, v *V, minimal bool) []byte {
	switch fmtName {
	case "cbor":
		return r.CborWire(v, CborOpts{Minimal: minimal}, nil)
	case "ubj":
		return r.UbjWire(v, minimal, nil)
	case "json":
		return r.JsonWire(v, minimal, nil)
	}
	panic("fmt")
}

// valFor: a value within the format's value domain for *wire* documents
func (r *Rand) valFor(fmtName string, tier string) *V {
	o := valOpts(tier)
	switch fmtName {
	case "json":
		o.FiniteOnly = true
		o.NoF32 = true
	case "ubj":
		o.IntMax63 = true
	}
	return r.Val(o, 0)
}

func evStream(r *Rand, v *V, ro RenderOpts) string {
	return strings.Join(r.Render(v, ro, nil), ",")
}

// genEncOps: encoder ops over renditions of random values.
func genEncOps(fmtName string, n int, withFaults bool) GenFn {
	return func(r *Rand, tier string, emit func(string)) {
		cnt := tierN(tier, n, n*20)
		optsSet := []string{"-"}
		if fmtName == "json" {
			optsSet = []string{"-", "h", "r", "i", "hr", "hi", "ri", "hri"}
		}
		for i := 0; i < cnt; i++ {
			o := valOpts(tier)
			v := r.Val(o, 0)
			ro := RenderOpts{Ext: r.P(60), Refs: r.P(50), UnknownLn: r.P(70)}
			toks := r.Render(v, ro, nil)
			opts := Pick(r, optsSet)
			emit(fmt.Sprintf("enc %s %s -1 %s", fmtName, opts, strings.Join(toks, ",")))
			if withFaults && len(toks) <= 40 {
				// fault index over a generous range of write calls
				k := r.Intn(2*len(toks) + 2)
				emit(fmt.Sprintf("enc %s %s %d %s", fmtName, opts, k, strings.Join(toks, ",")))
			}
		}
	}
}

// boundary integers x every admissible kind, as single-event documents and as
// elements of a definite array
func genEncBoundaries(fmtName string) GenFn {
	return func(r *Rand, tier string, emit func(string)) {
		for _, v := range Boundaries {
			for _, k := range Kinds {
				if !k.Fits(v) {
					continue
				}
				emit(fmt.Sprintf("enc %s - -1 %s", fmtName, numTok(k, v)))
			}
		}
		for b := 0; b < 256; b++ {
			emit(fmt.Sprintf("enc %s - -1 S:%02x", fmtName, b))
			emit(fmt.Sprintf("enc %s - -1 {1:0,K:%02x,N,}", fmtName, b))
		}
	}
}

// genParseOps: parser ops over valid wire documents (several chunkings and entry points)
func genParseOps(fmtName string, n int, malformedPct int, withFaults bool) GenFn {
	return func(r *Rand, tier string, emit func(string)) {
		cnt := tierN(tier, n, n*20)
		entries := []string{"P", "S", "W", "R"}
		for i := 0; i < cnt; i++ {
			var doc []byte
			ndocs := 1
			if r.P(15) {
				ndocs = 2 + r.Intn(2)
			}
			for d := 0; d < ndocs; d++ {
				v := r.valFor(fmtName, tier)
				if ndocs > 1 {
					v = r.Container(valOptsFor(fmtName, tier))
				}
				doc = append(doc, r.WireDoc(fmtName, v, r.P(30))...)
				if fmtName == "json" && ndocs > 1 {
					doc = append(doc, ' ')
				}
			}
			if r.P(malformedPct) {
				doc = r.Mutate(doc)
				if r.P(30) {
					doc = r.Mutate(doc)
				}
			}
			entry := Pick(r, entries)
			chunks := [][]byte{doc}
			if entry == "W" || entry == "R" {
				chunks = r.RandChunks(doc)
			}
			emit(fmt.Sprintf("parse %s %s -1 %s", fmtName, entry, ChunksString(chunks)))
			if withFaults && r.P(30) {
				emit(fmt.Sprintf("parse %s %s %d %s", fmtName, entry, r.Intn(12), ChunksString(chunks)))
			}
		}
	}
}

func valOptsFor(fmtName, tier string) ValOpts {
	o := valOpts(tier)
	switch fmtName {
	case "json":
		o.FiniteOnly = true
		o.NoF32 = true
	case "ubj":
		o.IntMax63 = true
	}
	return o
}

// exhaustive short inputs
func genShortInputs(fmtName string, alphabet []byte) GenFn {
	return func(r *Rand, tier string, emit func(string)) {
		maxLen := 2
		if tier == "thorough" && len(alphabet) <= 64 {
			maxLen = 3
		}
		var rec func(prefix []byte)
		rec = func(prefix []byte) {
			emit(fmt.Sprintf("parse %s P -1 %s", fmtName, ChunksString([][]byte{prefix})))
			if len(prefix) >= maxLen {
				return
			}
			for _, a := range alphabet {
				rec(append(append([]byte(nil), prefix...), a))
			}
		}
		rec(nil)
	}
}

func allBytes() []byte {
	b := make([]byte, 256)
	for i := range b {
		b[i] = byte(i)
	}
	return b
}

// genDecOps: pull decoder ops
func genDecOps(fmtName string, n int) GenFn {
	return func(r *Rand, tier string, emit func(string)) {
		cnt := tierN(tier, n, n*20)
		bufs := []int{0, 1, 2, 3, 7, 16, 64, 4096}
		for i := 0; i < cnt; i++ {
			k := r.Intn(5)
			var doc []byte
			for d := 0; d < k; d++ {
				var v *V
				if r.P(60) {
					v = r.Container(valOptsFor(fmtName, "quick"))
				} else {
					v = r.valFor(fmtName, "quick")
				}
				doc = append(doc, r.WireDoc(fmtName, v, r.P(40))...)
				if fmtName == "json" {
					doc = append(doc, Pick(r, []string{" ", "\n", "  ", "\t"})...)
				}
			}
			if r.P(25) && len(doc) > 0 { // stream ending inside a value
				doc = doc[:r.Intn(len(doc))]
			}
			bs := Pick(r, bufs)
			var chunks [][]byte
			if bs == 0 {
				chunks = [][]byte{doc}
			} else {
				// read sizes 1..bufsize varying per call, occasional (0, nil) reads
				i := 0
				for i < len(doc) {
					m := 1 + r.Intn(bs)
					if m > len(doc)-i {
						m = len(doc) - i
					}
					if r.P(5) {
						chunks = append(chunks, []byte{})
					}
					chunks = append(chunks, doc[i:i+m])
					i += m
				}
			}
			last := 0
			if r.Bool() {
				last = 1
			}
			emit(fmt.Sprintf("dec %s %d %d %d %s", fmtName, bs, last, k+3, ChunksString(chunks)))
		}
	}
}

func init() {
	// development aid: correspondence sweep of the CBOR mirror
	RegisterGen("XCBOR", genEncBoundaries("cbor"))
	RegisterGen("XCBOR", genEncOps("cbor", 2000, true))
	RegisterGen("XCBOR", genParseOps("cbor", 3000, 35, true))
	RegisterGen("XCBOR", genShortInputs("cbor", allBytes()))
	RegisterGen("XCBOR", genDecOps("cbor", 1500))
}
