package sfh

import (
	"bytes"
	"fmt"
	"strings"
)

// asDec: turns the fault-free `parse` lines of a parser generator into `dec` lines: streams of
// 1..4 of those documents read by the pull decoder through every buffer size, with a FIXED
// read size (1, 2, 3, 5 bytes and whole) so that every token is cut at every offset, plus the
// stream cut short inside its last document.
func asDec(g GenFn, every int) GenFn {
	return func(r *Rand, tier string, emit func(string)) {
		var pool [][]byte
		i := 0
		g(r, tier, func(line string) {
			f := strings.Fields(line)
			if len(f) != 5 || f[0] != "parse" || f[3] != "-1" {
				return
			}
			i++
			if every > 1 && i%every != 0 {
				return
			}
			doc := bytes.Join(Chunks(f[4]), nil)
			if len(doc) < 1 || len(doc) > 80 {
				return
			}
			fmtName := f[1]
			// only documents the parser accepts go into streams (a refused or truncated one
			// glued to the next document is a different, accidental document)
			if func() (bad bool) {
				defer func() {
					if recover() != nil {
						bad = true
					}
				}()
				return Formats[fmtName].Parse(append([]byte(nil), doc...), NewRecorder()) != nil
			}() {
				return
			}
			if fmtName == "json" {
				doc = append(append([]byte(nil), doc...), ' ')
			}
			pool = append(pool, doc)
			if len(pool) > 64 {
				pool = pool[1:]
			}
			k := 1 + r.Intn(4)
			var stream []byte
			for d := 0; d < k-1; d++ {
				stream = append(stream, Pick(r, pool)...)
			}
			stream = append(stream, doc...)
			for _, rs := range []int{1, 2, 3, 5, 0} {
				var chunks [][]byte
				if rs == 0 {
					chunks = [][]byte{stream}
				} else {
					for j := 0; j < len(stream); j += rs {
						e := j + rs
						if e > len(stream) {
							e = len(stream)
						}
						chunks = append(chunks, stream[j:e])
					}
				}
				bs := Pick(r, []int{1, 2, 3, 7, 16, 64, 4096})
				if rs > bs {
					bs = 4096
				}
				emit(fmt.Sprintf("dec %s %d %d %d %s", fmtName, bs, r.Intn(2), maxNext(stream), ChunksString(chunks)))
			}
			if len(stream) > 2 {
				cut := stream[:len(stream)-1-r.Intn(len(doc)-1+1)%len(stream)]
				if len(cut) > 0 {
					var one [][]byte
					for j := range cut {
						one = append(one, cut[j:j+1])
					}
					emit(fmt.Sprintf("dec %s 1 0 %d %s", fmtName, maxNext(cut), ChunksString(one)))
					emit(fmt.Sprintf("dec %s 0 0 %d %s", fmtName, maxNext(cut), ChunksString([][]byte{cut})))
				}
			}
		})
	}
}

// every top-level value takes at least one byte
func maxNext(stream []byte) int {
	n := len(stream) + 2
	if n > 60 {
		n = 60
	}
	return n
}

func init() {
	RegisterGen("C18", asDec(genXcodeForeign, 1))
	for _, f := range ModelledFormats {
		RegisterGen("C18", asDec(genConformance(f), 25))
	}
	RegisterGen("C18", asDec(genUbjParseTargeted(), 8))
	RegisterGen("C18", asDec(genJsonParseStruct, 8))
}
