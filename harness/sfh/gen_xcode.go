package sfh

import (
	"bytes"
	"fmt"
	"strings"
)

// asXcode: turns the fault-free `parse` lines of a parser generator into `xcode` lines:
// every (short) source document is transcoded into all three target formats, delivered in
// one piece, byte-wise, and with EVERY two-way cut (documents of up to 24 bytes) or a few
// random ones.  `every` thins the stream (1 = keep all lines).
func asXcode(g GenFn, every int) GenFn {
	return func(r *Rand, tier string, emit func(string)) {
		i := 0
		g(r, tier, func(line string) {
			f := strings.Fields(line)
			if len(f) != 5 || f[0] != "parse" || f[3] != "-1" {
				return
			}
			i++
			if every > 1 && i%every != 0 {
				return
			}
			doc := bytes.Join(Chunks(f[4]), nil)
			if len(doc) < 1 || len(doc) > 64 {
				return
			}
			var one [][]byte
			for j := range doc {
				one = append(one, doc[j:j+1])
			}
			for _, dst := range ModelledFormats {
				o := optsFor(r, dst)
				emit(fmt.Sprintf("xcode %s %s %s %s", f[1], dst, o, ChunksString([][]byte{doc})))
				emit(fmt.Sprintf("xcode %s %s %s %s", f[1], dst, o, ChunksString(one)))
				if len(doc) <= 24 {
					for c := 1; c < len(doc); c++ {
						emit(fmt.Sprintf("xcode %s %s %s %s", f[1], dst, o, ChunksString([][]byte{doc[:c], doc[c:]})))
					}
				} else {
					for k := 0; k < 4; k++ {
						c := 1 + r.Intn(len(doc)-1)
						emit(fmt.Sprintf("xcode %s %s %s %s", f[1], dst, o, ChunksString([][]byte{doc[:c], doc[c:]})))
					}
				}
			}
		})
	}
}

// genXcodeForeign: the shapes only foreign encoders produce, in every container position
func genXcodeForeign(r *Rand, tier string, emit func(string)) {
	cbor := []string{
		"40", "4101", "420102", "450102030405", "58190102030405060708090a0b0c0d0e0f10111213141516171819",
		"1805", "190005", "1a00000005", "1b0000000000000005", "3800", "390000", "19ffff", "198000", "1affffffff",
		"1b7fffffffffffffff", "1bffffffffffffffff", "3b7fffffffffffffff",
		"9f0102ff", "bf616101ff", "9f9f01ffbf6161f6ffff", "80", "a0", "9fff", "bfff", "f7",
		"7801" + "61", "790001" + "61", "9800", "b800",
		"fa3fc00000", "fb3ff8000000000000", "fa7f800000", "fa7fc00000", "fb7ff0000000000001",
	}
	wrap := func(h string) []string {
		return []string{h, "81" + h, "82" + h + "07", "8207" + h, "9f" + h + "ff", "a16161" + h, "bf6161" + h + "ff", "a2616101616b" + h, "8181" + h}
	}
	for _, h := range cbor {
		for _, w := range wrap(h) {
			emit("parse cbor P -1 " + w)
		}
	}
	ubj := []string{
		"5b24692369020102", "5b24552369020102", "5b2449236901" + "8000", "5b246c236901" + "80000000", "5b244c236901" + "8000000000000000",
		"5b2464236901" + "3fc00000", "5b2444236901" + "3ff8000000000000", "5b24542369025d"[:14], "5b245a236902", "5b2446236901",
		"5b245323690269016169" + "00", "5b244323690261" + "62", "5b2348" + "690131" + "5d"[:0],
		"7b24692369016901" + "61" + "05", "7b2369016901" + "61" + "54", "7b245a2369016901" + "61",
		"5b2369035a5446", "5b5b5d5d", "7b5d"[:2] + "7d", "4869033132" + "33", "48690531" + "2e356531", "43" + "7a", "5500", "55ff", "69ff", "4980" + "00", "6c80000000",
		"4c8000000000000000", "5b245b23690223690154" + "23690146",
	}
	for _, h := range ubj {
		emit("parse ubj P -1 " + h)
		emit("parse ubj P -1 5b" + h + "5d")
		emit("parse ubj P -1 7b690161" + h + "7d")
	}
	js := []string{
		`[]`, `{}`, `[[],{}]`, `{"a":[1,2,{"b":null}],"c":"d"}`, `"é😀\n"`, `[1.5,-0.25,1e3,123456789012345678]`, `[true,false,null]`,
		`{"":""}`, `[18446744073709551615,-9223372036854775808]`, ` [ 1 , 2 ] `, `{"a":{"b":{"c":[[[1]]]}}}`, `[0.1,1e-7,1e21]`,
	}
	for _, s := range js {
		emit("parse json P -1 " + hx([]byte(s)))
	}
}

func init() {
	RegisterGen("C08", asXcode(genXcodeForeign, 1))
	for _, f := range ModelledFormats {
		RegisterGen("C08", asXcode(genConformance(f), 40))
	}
	RegisterGen("C08", asXcode(genUbjParseTargeted(), 10))
	RegisterGen("C08", asXcode(genJsonParseStruct, 10))
	RegisterGen("C08", asXcode(genJsonParseNumbers, 20))
	RegisterGen("C08", asXcode(genJsonParseStrings, 20))
}
