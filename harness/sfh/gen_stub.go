package sfh

func (r *Rand) UbjWire(v *V, minimal bool, out []byte) []byte  { panic("todo") }
func (r *Rand) JsonWire(v *V, minimal bool, out []byte) []byte { panic("todo") }
