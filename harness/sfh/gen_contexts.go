package sfh

import "fmt"

// genByteInContext: every byte value 0x00..0xff placed at every kind of position a parser
// dispatches on (top level, array element, map key, map value, definite / indefinite /
// counted / typed containers, after a first element), followed by 0, 1, 2 or 9 filler bytes.
// This pairs every (parser state, head byte) combination with "input ends here" and "input
// goes on", which is where hangs, panics and silent acceptance live (C03); whole-buffer and
// byte-wise delivery.
func genByteInContext(fmtName string) GenFn {
	var prefixes [][]byte
	switch fmtName {
	case "cbor":
		prefixes = [][]byte{
			{},                       // top level
			{0x82},                   // first element of a definite array
			{0x82, 0x01},             // later element
			{0x9f},                   // element of an indefinite array
			{0x9f, 0x01},             //
			{0xa1},                   // key of a definite map
			{0xa2, 0x61, 0x61, 0x01}, // later key
			{0xa1, 0x61, 0x61},       // value of a definite map
			{0xbf},                   // key of an indefinite map
			{0xbf, 0x61, 0x61},       // value in an indefinite map
			{0xbf, 0x61, 0x61, 0x01}, // later key of an indefinite map
			{0x81, 0x81},             // nested
			{0x18},                   // inside an integer argument
			{0x62, 0x61},             // inside a text payload
			{0x43, 0x01},             // inside a byte string payload
			{0x5a, 0x00, 0x00},       // inside a length
			{0xfa, 0x00},             // inside a float
		}
	case "ubj":
		prefixes = [][]byte{
			{},
			{'['},
			{'[', 'i', 1},
			{'{'},
			{'{', 'i', 1, 'a'},
			{'{', 'i', 1, 'a', 'T'},
			{'[', '#'},
			{'[', '#', 'i', 2},
			{'[', '#', 'i', 2, 'T'},
			{'[', '$'},
			{'[', '$', 'i'},
			{'[', '$', 'i', '#'},
			{'[', '$', 'i', '#', 'i', 2},
			{'{', '#'},
			{'{', '#', 'i', 1},
			{'{', '$', 'i', '#', 'i', 1},
			{'{', '$', 'i', '#', 'i', 1, 'i', 1, 'a'},
			{'S'},
			{'S', 'i'},
			{'S', 'i', 2, 'a'},
			{'H'},
			{'C'},
			{'I', 0},
			{'[', '['},
		}
	case "json":
		prefixes = [][]byte{
			{},
			{'['},
			{'[', '1'},
			{'[', '1', ','},
			{'{'},
			{'{', '"', 'a', '"'},
			{'{', '"', 'a', '"', ':'},
			{'{', '"', 'a', '"', ':', '1'},
			{'{', '"', 'a', '"', ':', '1', ','},
			{'"'},
			{'"', '\\'},
			{'"', '\\', 'u'},
			{'"', '\\', 'u', '1', '2'},
			{'"', '\\', 'u', 'd', '8', '0', '0'},
			{'"', '\\', 'u', 'd', '8', '0', '0', '\\'},
			{'"', '\\', 'u', 'd', '8', '0', '0', '\\', 'u'},
			{'{', '"'},
			{'-'},
			{'1'},
			{'1', '.'},
			{'1', 'e'},
			{'1', 'e', '+'},
			{'t'},
			{'t', 'r', 'u'},
			{'n', 'u'},
			{'f', 'a', 'l', 's'},
			{'[', '['},
			{' '},
		}
	}
	fillers := [][]byte{
		{},
		{0x00},
		{0x61},
		{0xff},
		{0x00, 0x00},
		{0x01, 0x02},
		{0x00, 0x00, 0x00, 0x00, 0x00, 0x00, 0x00, 0x00, 0x00},
		{0x61, 0x61, 0x61, 0x61, 0x61, 0x61, 0x61, 0x61, 0x61},
	}
	return func(r *Rand, tier string, emit func(string)) {
		for _, p := range prefixes {
			for b := 0; b < 256; b++ {
				for fi, f := range fillers {
					if tier != "thorough" && fi >= 4 && (b+fi)%4 != 0 {
						continue // quick tier: the longer fillers on a quarter of the bytes
					}
					doc := append(append(append([]byte(nil), p...), byte(b)), f...)
					emit(fmt.Sprintf("parse %s P -1 %s", fmtName, ChunksString([][]byte{doc})))
					if fi == 1 || fi == 5 {
						var one [][]byte
						for j := range doc {
							one = append(one, doc[j:j+1])
						}
						emit(fmt.Sprintf("parse %s W -1 %s", fmtName, ChunksString(one)))
					}
				}
			}
		}
	}
}

func init() {
	for _, f := range ModelledFormats {
		g := genByteInContext(f)
		RegisterGen("C03", g)
		RegisterGen("C02", asChunk(g))
		RegisterGen("X"+map[string]string{"cbor": "CBOR", "ubj": "UBJ", "json": "JSON"}[f], g)
	}
	RegisterGen("C05", genByteInContext("cbor"))
	RegisterGen("C06", genByteInContext("ubj"))
	RegisterGen("C04", genByteInContext("json"))
}
