package sfh

import (
	"fmt"
	"io"
	"reflect"
	"runtime"
	"runtime/debug"
	"strconv"
	"strings"
	"sync/atomic"

	structform "github.com/elastic/go-structform"
	"github.com/elastic/go-structform/gotype"
)

// alias <fmt> <target type> <cache|-> <gc 0|1> <mode W|D<bufsize>> <chunks of doc 1> <chunks of doc 2>
//
// C15: what unfolding stored in a target must not change when the buffers the parser read
// from are overwritten and when the same parser and unfolder go on to process further input.
//
//	control : fresh parser + unfolder, doc 1 in one piece, nothing overwritten   -> value c
//	test    : one parser (mode W: Write per chunk; mode D: pull decoder over a reader with a
//	          small buffer) feeding one Unfolder; every chunk is handed over in its own buffer
//	          which is OVERWRITTEN (every byte inverted) as soon as Write / Read returns;
//	          value of target 1 right after doc 1 -> b; then SetTarget(&target2), doc 2 through
//	          the SAME parser and unfolder, garbage allocated, GC run; target 1 again -> a;
//	          target 2 -> d, compared with a control run of doc 2
//	gc 1    : a goroutine runs the garbage collector continuously, GC percent 1
//
//	-> same | err | changed:<which>:<c>|<b>|<a>
func opAlias(args []string) string {
	f := Formats[args[0]]
	t, ok := UParseType(args[1])
	if strings.HasPrefix(args[1], "@@") {
		t, ok = aliasTypes[args[1][2:]]
	}
	if !ok {
		return "bad-type"
	}
	cache := -1
	if args[2] != "-" {
		cache, _ = strconv.Atoi(args[2])
	}
	gc := args[3] == "1"
	mode := args[4]
	doc1, doc2 := Chunks(args[5]), Chunks(args[6])

	ctl1, ok1 := aliasControl(f, t, doc1)
	ctl2, ok2 := aliasControl(f, t, doc2)
	if !ok1 {
		return "err"
	}

	if gc {
		old := debug.SetGCPercent(1)
		var stop int32
		done := make(chan struct{})
		go func() {
			for atomic.LoadInt32(&stop) == 0 {
				runtime.GC()
				runtime.Gosched()
			}
			close(done)
		}()
		defer func() { atomic.StoreInt32(&stop, 1); <-done; debug.SetGCPercent(old) }()
	}

	target1 := reflect.New(t)
	u, err := gotype.NewUnfolder(target1.Interface(), aliasUnfoldOpts)
	if err != nil {
		return "err"
	}
	if cache >= 0 {
		u.EnableKeyCache(cache)
	}
	var before, after, second string
	churn := func() {
		// garbage of many size classes, so that memory freed by mistake is reused at once
		var keep [][]byte
		for i := 0; i < 200; i++ {
			b := make([]byte, 1+(i*37)%600)
			for j := range b {
				b[j] = 0x5a
			}
			keep = append(keep, b)
		}
		runtime.GC()
		_ = keep
	}
	target2 := reflect.New(t)
	if mode == "W" {
		p := f.NewParser(u)
		feed := func(chunks [][]byte) error {
			for _, c := range chunks {
				buf := append([]byte(nil), c...)
				_, err := p.Write(buf)
				for i := range buf {
					buf[i] = ^buf[i]
				}
				if err != nil {
					return err
				}
			}
			return nil
		}
		if err := feed(doc1); err != nil {
			return "err"
		}
		if hookParserFinalize(p) != nil {
			return "err"
		}
		before = UPrintVal(target1.Elem())
		if u.SetTarget(target2.Interface()) != nil {
			return "err"
		}
		err2 := feed(doc2)
		churn()
		after = UPrintVal(target1.Elem())
		if err2 == nil && hookParserFinalize(p) == nil && ok2 {
			second = UPrintVal(target2.Elem())
		}
	} else {
		bufSize, _ := strconv.Atoi(mode[1:])
		rd := &scribbleReader{chunks: append(append([][]byte(nil), doc1...), doc2...)}
		dec := f.NewDecoder(rd, bufSize, u)
		if dec.Next() != nil {
			return "err"
		}
		before = UPrintVal(target1.Elem())
		if u.SetTarget(target2.Interface()) != nil {
			return "err"
		}
		err2 := dec.Next()
		churn()
		after = UPrintVal(target1.Elem())
		if err2 == nil && ok2 {
			second = UPrintVal(target2.Elem())
		}
	}
	switch {
	case before != ctl1:
		return fmt.Sprintf("changed:while-parsing:%s|%s|%s", ctl1, before, after)
	case after != ctl1:
		return fmt.Sprintf("changed:after-reuse:%s|%s|%s", ctl1, before, after)
	case second != "" && second != ctl2:
		return fmt.Sprintf("changed:second-document:%s|%s|%s", ctl2, second, after)
	}
	return "same"
}

func aliasControl(f *Format, t reflect.Type, doc [][]byte) (string, bool) {
	target := reflect.New(t)
	u, err := gotype.NewUnfolder(target.Interface(), aliasUnfoldOpts)
	if err != nil {
		return "", false
	}
	var all []byte
	for _, c := range doc {
		all = append(all, c...)
	}
	if err := f.Parse(all, u); err != nil {
		return "", false
	}
	return UPrintVal(target.Elem()), true
}

// scribbleReader hands out one chunk per Read through a buffer of its own that it
// overwrites before the next Read (io.Reader contract: the caller's p is the copy target,
// so the source is what a network stack would reuse)
type scribbleReader struct {
	chunks [][]byte
	last   []byte
}

func (r *scribbleReader) Read(p []byte) (int, error) {
	for i := range r.last {
		r.last[i] = ^r.last[i]
	}
	r.last = nil
	for len(r.chunks) > 0 && len(r.chunks[0]) == 0 {
		r.chunks = r.chunks[1:]
	}
	if len(r.chunks) == 0 {
		return 0, io.EOF
	}
	src := append([]byte(nil), r.chunks[0]...)
	n := copy(p, src)
	r.chunks[0] = r.chunks[0][n:]
	r.last = src
	return n, nil
}

// aliasrec <fmt> <mode W|P> <chunks>: the same discipline at the Visitor level — a consumer
// that keeps every BY-VALUE string and key it is given (as the interface allows) and copies
// every by-reference one; afterwards the input buffers are overwritten and more input is
// parsed; the kept strings must still equal the copies taken inside the callbacks.
//
//	-> same | err | changed:<index>
func opAliasRec(args []string) string {
	f := Formats[args[0]]
	chunks := Chunks(args[2])
	k := &keeper{}
	k.FailAt = -1
	var bufs [][]byte
	p := f.NewParser(k)
	var err error
	if args[1] == "P" {
		var all []byte
		for _, c := range chunks {
			all = append(all, c...)
		}
		bufs = append(bufs, all)
		err = p.Parse(all)
	} else {
		for _, c := range chunks {
			buf := append([]byte(nil), c...)
			bufs = append(bufs, buf)
			if _, err = p.Write(buf); err != nil {
				break
			}
			for i := range buf {
				buf[i] = ^buf[i]
			}
		}
	}
	for _, b := range bufs {
		for i := range b {
			b[i] = 0xee
		}
	}
	// the same parser goes on: its internal buffers are reused
	filler := map[string][]byte{"json": []byte(`["xxxxxxxxxxxxxxxxxxxxxxxxxxxxxxxx","\nyyyyyyyyyyyyyyyyyyyyyyyy"] `), "cbor": {0x82, 0x78, 0x20, 120, 120, 120, 120, 120, 120, 120, 120, 120, 120, 120, 120, 120, 120, 120, 120, 120, 120, 120, 120, 120, 120, 120, 120, 120, 120, 120, 120, 120, 120, 120, 120, 0x61, 0x79}, "ubj": {'[', 'S', 'i', 8, 120, 120, 120, 120, 120, 120, 120, 120, 'S', 'i', 1, 121, ']'}}[f.Name]
	k.off = true
	for i := range filler {
		p.Write(filler[i : i+1])
	}
	runtime.GC()
	_ = err
	for i := range k.kept {
		if k.kept[i] != string(k.copies[i]) {
			return "changed:" + strconv.Itoa(i)
		}
	}
	return "same"
}

type keeper struct {
	Recorder
	kept   []string
	copies [][]byte
	off    bool
}

func (k *keeper) OnString(s string) error {
	if !k.off {
		k.kept = append(k.kept, s)
		k.copies = append(k.copies, []byte(s))
	}
	return nil
}
func (k *keeper) OnKey(s string) error { return k.OnString(s) }
func (k *keeper) OnStringRef(s []byte) error {
	return nil
}
func (k *keeper) OnKeyRef(s []byte) error { return nil }

var _ structform.Visitor = (*keeper)(nil)

func init() {
	RegisterOp("alias", opAlias)
	RegisterOp("aliasrec", opAliasRec)
}
