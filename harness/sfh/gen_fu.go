package sfh

// gen_fu.go — generators for the op `fu` (ops_fu.go), property C11; "XFU" = the same set for
// development sweeps.  Types and values are written in the grammar of gotypes.go; random
// values come from gen_fold.go's foldGen.

import (
	"fmt"
	"strings"
	"unicode/utf8"
)

var fuPaths = []string{"direct", "json", "ubjson", "cborl"}

func fuAll(emit func(string), t, v string) {
	for _, p := range fuPaths {
		if p == "json" && fuKeysMayCollide(v) {
			// two map keys that are no valid UTF-8 may both become U+FFFD in JSON: which entry
			// survives depends on Go's map iteration order
			continue
		}
		emit(fmt.Sprintf("fu %s %s %s", t, v, p))
	}
}

func fuKeysMayCollide(v string) bool {
	n := 0
	for _, part := range strings.Split(v, "s:")[1:] {
		j := 0
		for j < len(part) && isHexByte(part[j]) {
			j++
		}
		if j < len(part) && part[j] == '=' && j%2 == 0 && !utf8.Valid(mustHex(part[:j])) {
			n++
		}
	}
	return n >= 2
}

// positions a value of type t can sit in (all of them round trip)
func fuPositions(t, v string) [][2]string {
	return [][2]string{
		{t, v},
		{"struct{A:" + t + ";B:int}", "(" + v + ",7)"},
		{"[]" + t, "[" + v + "," + v + "]"},
		{"map[string]" + t, "{s:6b=" + v + "}"},
		{"*" + t, "&" + v},
		{"**" + t, "&&" + v},
		{"any", "<" + t + ">" + v},
		{"struct{P:*" + t + "`p,omitempty`;I:any`i`}", "(&" + v + ",<" + t + ">" + v + ")"},
		{"[]any", "[<" + t + ">" + v + ",nil]"},
		{"map[string]any", "{s:=<[]" + t + ">[" + v + "]}"},
	}
}

// genFuScalars: every integer / float width at its boundaries, strings and keys with invalid
// UTF-8 and every escape, in every position, over all four paths
func genFuScalars(r *Rand, tier string, emit func(string)) {
	for _, k := range Kinds {
		if k.Name == "b" {
			continue
		}
		t := map[string]string{"i": "int", "i8": "int8", "i16": "int16", "i32": "int32", "i64": "int64",
			"u": "uint", "u8": "uint8", "u16": "uint16", "u32": "uint32", "u64": "uint64"}[k.Name]
		seen := map[string]bool{}
		for _, b := range Boundaries {
			if !k.Fits(b) || seen[b.String()] {
				continue
			}
			seen[b.String()] = true
			for i, pos := range fuPositions(t, b.String()) {
				if i > 0 && tier != "thorough" && !r.P(25) {
					continue
				}
				fuAll(emit, pos[0], pos[1])
			}
		}
	}
	for _, b := range uF64Bits {
		for i, pos := range fuPositions("float64", fmt.Sprintf("f:%016x", b)) {
			if i > 0 && tier != "thorough" && !r.P(30) {
				continue
			}
			fuAll(emit, pos[0], pos[1])
		}
	}
	for _, b := range uF32Bits {
		for i, pos := range fuPositions("float32", fmt.Sprintf("f:%08x", b)) {
			if i > 0 && tier != "thorough" && !r.P(30) {
				continue
			}
			fuAll(emit, pos[0], pos[1])
		}
	}
	for i := 0; i < tierN(tier, 150, 3000); i++ {
		fuAll(emit, "float64", fmt.Sprintf("f:%016x", r.F64Bits(false)))
		fuAll(emit, "float32", fmt.Sprintf("f:%08x", r.F32Bits(false)))
		fuAll(emit, "any", fmt.Sprintf("<float32>f:%08x", r.F32Bits(true)))
	}
	for _, v := range []string{"true", "false"} {
		for _, pos := range fuPositions("bool", v) {
			fuAll(emit, pos[0], pos[1])
		}
	}
	for b := 0; b < 256; b++ {
		s := fmt.Sprintf("s:%02x", b)
		fuAll(emit, "string", s)
		fuAll(emit, "map[string]int", "{"+s+"=1}")
		if b%8 == 0 {
			fuAll(emit, "any", "<string>"+s)
			fuAll(emit, "map[string]any", "{"+s+"=<string>"+s+"}")
		}
	}
	for _, s := range strSpecial {
		for i, pos := range fuPositions("string", "s:"+Hex(s)) {
			if i > 0 && tier != "thorough" && !r.P(40) {
				continue
			}
			fuAll(emit, pos[0], pos[1])
		}
		fuAll(emit, "map[string]string", "{s:"+Hex(s)+"=s:"+Hex(s)+",s:6b6b=s:}")
	}
}

// fuGen: random types of the SUPPORTED universe (what must round trip)
type fuGen struct {
	r *Rand
	n int
}

var fuMenagerie = []string{"NBool", "NStr", "NInt", "NU8", "NF32", "NInts", "NBytes", "NStrs", "NAnys", "NMap", "NMapAny", "NPtr",
	"Unexp", "Inner", "EmbInline", "EmbPlain", "EmbUnexp", "ZV", "ZP", "ZInt", "ZStr", "TimeLike", "EmbZ", "Mixed", "NI", "inner2"}

var fuTags = []string{"", "", "", "", "%s", "%s", ",omitempty", ",omitempty", "%s,omitempty", ",omit", "-", " %s , omitempty ", ",foo", "-,omitempty", "%s,omit"}

func (g *fuGen) Type(d int) string {
	r := g.r
	if d <= 0 {
		if r.P(15) {
			return "any"
		}
		return Pick(r, scalarTypes)
	}
	switch c := r.Intn(100); {
	case c < 22:
		return Pick(r, scalarTypes)
	case c < 36:
		return "[]" + g.Type(d-1)
	case c < 48:
		k := "string"
		if r.P(10) {
			k = "@NStr"
		}
		return "map[" + k + "]" + g.Type(d-1)
	case c < 60:
		return strings.Repeat("*", 1+r.Intn(3)) + g.Type(d-1)
	case c < 80:
		return g.StructType(d)
	case c < 90:
		return "any"
	default:
		return "@" + Pick(r, fuMenagerie)
	}
}

func (g *fuGen) StructType(d int) string {
	r := g.r
	n := r.Intn(7)
	fs := make([]string, n)
	for i := range fs {
		g.n++
		name := fmt.Sprintf("F%d", g.n)
		if r.P(8) {
			name = Pick(r, oddFieldNames) + fmt.Sprint(g.n)
		}
		ft := g.Type(d - 1)
		tag := Pick(r, fuTags)
		if strings.Contains(tag, "%s") {
			tag = fmt.Sprintf(tag, Pick(r, []string{"nm", "x", "ö", "a.b", "K"})+fmt.Sprint(g.n))
		}
		if r.P(8) { // inline: struct kinds only on the unfold side
			ft = Pick(r, []string{"@Inner", "@Unexp", "@EmbInline"})
			if r.P(60) && d > 1 {
				ft = g.StructType(d - 1)
			}
			tag = Pick(r, []string{",inline", ",squash", "ignored,inline"})
		}
		fs[i] = name + ":" + ft
		if tag != "" {
			fs[i] += "`" + escapeTag(tag) + "`"
		}
	}
	return "struct{" + strings.Join(fs, ";") + "}"
}

// genFuRandom: type-directed random values over the supported universe x 4 paths, and over
// the whole universe of gen_fold.go (unsupported kinds, odd tags, custom folders) x 1 path
func genFuRandom(r *Rand, tier string, emit func(string)) {
	n := tierN(tier, 2500, 50000)
	for i := 0; i < n; i++ {
		g := &fuGen{r: r}
		t := g.Type(1 + r.Intn(3))
		vg := &foldGen{r: r}
		for k := 0; k < 1+r.Intn(2); k++ {
			v := vg.Value(ParseType(t), 3)
			fuAll(emit, t, v)
		}
	}
	for i := 0; i < n; i++ {
		vg := &foldGen{r: r}
		t := vg.Type(1 + r.Intn(3))
		v := vg.Value(ParseType(t), 3)
		p := Pick(r, fuPaths)
		if p == "json" && fuKeysMayCollide(v) {
			p = "cborl"
		}
		emit(fmt.Sprintf("fu %s %s %s", t, v, p))
	}
}

// genFuShapes: empty vs nil containers, pointer chains, interface fields holding every
// dynamic type, tag combinations, named and recursive types, unsupported types
func genFuShapes(r *Rand, tier string, emit func(string)) {
	// empty vs nil
	for _, c := range [][2]string{
		{"[]int", "nil"}, {"[]int", "[]"}, {"[]any", "nil"}, {"[]any", "[]"}, {"map[string]int", "nil"}, {"map[string]int", "{}"},
		{"map[string]any", "{}"}, {"[][]int", "[nil,[],[1]]"}, {"map[string][]string", "{s:61=nil,s:62=[],s:63=[s:]}"},
		{"[]map[string]int", "[nil,{},{s:6b=1}]"}, {"*[]int", "&nil"}, {"*[]int", "&[]"}, {"*map[string]int", "&nil"}, {"*map[string]any", "&{}"},
		{"struct{A:[]int;B:map[string]int;C:[]int`,omitempty`;D:map[string]int`,omitempty`;E:string`,omitempty`}", "([],{},[],{},s:)"},
		{"struct{A:[]int;B:map[string]int;C:[]int`,omitempty`;D:map[string]int`,omitempty`;E:string`,omitempty`}", "(nil,nil,nil,nil,s:)"},
		{"struct{A:[]int;B:map[string]int;C:[]int`,omitempty`;D:map[string]int`,omitempty`;E:string`,omitempty`}", "([1],{s:6b=1},[2],{s:6b=2},s:65)"},
		{"any", "<[]int>nil"}, {"any", "<[]int>[]"}, {"any", "<map[string]int>nil"}, {"any", "<map[string]any>{}"}, {"any", "<[]any>[]"},
		{"any", "<*int>nil"}, {"any", "<**int>&nil"}, {"any", "<*[]int>&nil"}, {"[]any", "[<*int>nil,<[]int>nil,nil]"},
	} {
		fuAll(emit, c[0], c[1])
	}
	// pointer chains
	for d := 1; d <= 4; d++ {
		st := strings.Repeat("*", d)
		for k := 0; k <= d; k++ {
			v := strings.Repeat("&", k)
			if k < d {
				v += "nil"
			} else {
				v += "5"
			}
			fuAll(emit, st+"int", v)
			fuAll(emit, "struct{P:"+st+"int;Q:"+st+"int`,omitempty`}", "("+v+","+v+")")
			fuAll(emit, "[]"+st+"int", "["+v+",nil]")
			fuAll(emit, "map[string]"+st+"int", "{s:61="+v+"}")
			fuAll(emit, "any", "<"+st+"int>"+v)
		}
		in := strings.Repeat("&", d) + "(1,s:61)"
		fuAll(emit, st+"@Inner", in)
		fuAll(emit, "struct{P:"+st+"@Inner}", "("+in+")")
		fuAll(emit, st+"[]"+st+"@Inner", strings.Repeat("&", d)+"["+in+",nil]")
	}
	// interface fields holding every dynamic type
	dyn := [][2]string{
		{"bool", "true"}, {"string", "s:6869"}, {"int", "-5"}, {"int8", "-128"}, {"int16", "32767"}, {"int32", "-2147483648"},
		{"int64", "9223372036854775807"}, {"uint", "5"}, {"uint8", "255"}, {"uint16", "65535"}, {"uint32", "4294967295"},
		{"uint64", "18446744073709551615"}, {"uint64", "9223372036854775807"}, {"float32", "f:3fc00000"}, {"float64", "f:bff8000000000000"},
		{"[]int", "[1,2]"}, {"[]uint8", "[1,255]"}, {"[]string", "[s:61,s:]"}, {"[]bool", "[true,false]"}, {"[]float32", "[f:3fc00000]"},
		{"[]float64", "[f:4000000000000000]"}, {"[]uint64", "[1,18446744073709551615]"}, {"[]any", "[<int>1,nil,<string>s:78]"},
		{"[2]int", "[1,2]"}, {"[0]string", "[]"}, {"[1][]int", "[[1]]"},
		{"map[string]int", "{s:61=1,s:62=2}"}, {"map[string]string", "{s:61=s:62}"}, {"map[string]any", "{s:61=nil,s:62=<bool>true}"},
		{"map[string]uint64", "{s:61=18446744073709551615}"}, {"map[string]float32", "{s:61=f:3fc00000}"}, {"map[string][]int", "{s:61=[1]}"},
		{"*int", "&5"}, {"*string", "nil"}, {"**float64", "&&f:3ff0000000000000"}, {"*[]int", "&[1]"},
		{"struct{A:int;B:string`bee`;c:int;D:[]int`,omitempty`}", "(1,s:62,3,nil)"}, {"*struct{A:*int}", "&(&1)"}, {"struct{}", "()"},
		{"@Inner", "(1,s:79)"}, {"*@Inner", "&(2,s:)"}, {"@EmbInline", "((1,s:61),2)"}, {"@EmbPlain", "((1,s:61),2)"}, {"@Unexp", "(1,s:62,true,3,s:c3bc)"},
		{"@NInt", "5"}, {"@NStr", "s:6e"}, {"@NBool", "true"}, {"@NU8", "200"}, {"@NF32", "f:3fc00000"}, {"@NInts", "[1,2]"}, {"@NBytes", "[1,2]"},
		{"@NStrs", "[s:61]"}, {"@NAnys", "[<int>1]"}, {"@NArr", "[1,2]"}, {"@NMap", "{s:61=1}"}, {"@NMapAny", "{s:61=<int>1}"}, {"@NPtr", "&5"},
		{"@ZV", "(0)"}, {"@ZV", "(3)"}, {"@ZP", "(0)"}, {"*@ZP", "nil"}, {"@ZInt", "0"}, {"@ZStr", "s:7a65726f"}, {"@TimeLike", "(0,0)"}, {"@TimeLike", "(1,2)"},
		{"@FV", "(1,s:61)"}, {"@FP", "(1)"}, {"*@FP", "&(2)"}, {"*@FP", "nil"}, {"@FS", "3"}, {"@UF", "(1)"}, {"@UO", "(1,s:65)"}, {"@UD", "4"}, {"@EmbF", "((1,s:61),2)"},
		{"@Ifc", "(<int>1,nil,nil)"}, {"@Mixed", "({s:61=<int>1},[nil,<string>s:])"}, {"@NI", "(1,<@NI>(2,nil))"}, {"@NI", "(1,<*@NI>&(2,<int>3))"},
	}
	for _, d := range dyn {
		v := "<" + d[0] + ">" + d[1]
		fuAll(emit, "any", v)
		fuAll(emit, "struct{A:any;B:any`b,omitempty`;C:*any}", "("+v+","+v+",&"+v+")")
		fuAll(emit, "[]any", "["+v+","+v+"]")
		fuAll(emit, "map[string]any", "{s:6b="+v+"}")
		fuAll(emit, d[0], d[1])
		fuAll(emit, "struct{V:"+d[0]+";W:"+d[0]+"`w,omitempty`;X:*"+d[0]+"`,omitempty`}", "("+d[1]+","+d[1]+",&"+d[1]+")")
	}
	// tag combinations on a few field types
	for _, ft := range [][3]string{{"int", "0", "5"}, {"string", "s:", "s:61"}, {"[]int", "nil", "[1]"}, {"*int", "nil", "&0"}, {"any", "nil", "<string>s:"},
		{"@Inner", "(0,s:)", "(1,s:61)"}, {"map[string]int", "{}", "{s:61=1}"}, {"@ZV", "(0)", "(1)"}, {"*@Inner", "nil", "&(1,s:61)"}, {"@ZStr", "s:7a65726f", "s:"},
		// every kind of IsZeroer: value / pointer receiver, struct / scalar / slice / map / array kinds, behind pointers, embedded
		{"@ZP", "(0)", "(1)"}, {"*@ZP", "nil", "&(0)"}, {"*@ZV", "nil", "&(0)"}, {"@ZInt", "0", "1"}, {"@TimeLike", "(0,0)", "(1,2)"},
		{"@EmbZ", "((0),1)", "((1),1)"}, {"@ZInts", "nil", "[1,0]"}, {"@ZInts", "[0,1]", "[]"}, {"@ZArr", "[0,0]", "[0,1]"},
		{"@ZMapP", "nil", "{s:6b=1}"}, {"bool", "false", "true"}, {"float64", "f:0000000000000000", "f:3ff0000000000000"}, {"[2]int", "[0,0]", "[0,1]"}} {
		for _, tag := range allTags() {
			t := "struct{A:int;" + tagged("F", ft[0], tag) + ";Z:string}"
			fuAll(emit, t, "(1,"+ft[1]+",s:7a)")
			emit(fmt.Sprintf("fu %s %s %s", t, "(1,"+ft[2]+",s:7a)", Pick(r, fuPaths)))
		}
	}
	// recursive types: through a pointer (the type term is cyclic: every fold costs a child
	// process), through an interface
	for _, v := range []string{"(1,nil)", "(1,&(2,nil))", "(1,&(2,&(3,nil)))"} {
		fuAll(emit, "@N", v)
	}
	emit("fu *@N &(1,&(2,nil)) direct")
	emit("fu []@N [(1,nil),(2,&(3,nil))] json")
	emit("fu map[string]*@N {s:61=&(1,nil),s:62=nil} cborl")
	emit("fu struct{L:@N;M:*@N`,omitempty`} ((1,&(2,nil)),nil) ubjson")
	emit("fu any <@N>(1,&(2,nil)) direct")
	for _, v := range []string{"(1,nil)", "(1,<@NI>(2,nil))", "(1,<*@NI>&(2,<@NI>(3,nil)))", "(1,<[]@NI>[(2,nil),(3,<int>4)])", "(1,<map[string]@NI>{s:61=(2,nil)})"} {
		fuAll(emit, "@NI", v)
		fuAll(emit, "*@NI", "&"+v)
	}
	// unsupported: must be refused with an error, by whichever side sees it first
	for _, c := range [][2]string{
		{"chan:int", "nil"}, {"func", "nil"}, {"complex64", "c:0000000000000000"}, {"complex128", "c:00000000000000000000000000000000"}, {"uintptr", "5"},
		{"[2]int", "[1,2]"}, {"[0]int", "[]"}, {"map[int]string", "{1=s:61}"}, {"map[int]string", "nil"}, {"map[bool]int", "{true=1}"},
		{"[]chan:int", "nil"}, {"[]chan:int", "[nil]"}, {"*func", "nil"}, {"map[string]complex64", "{}"}, {"[][2]int", "[[1,2]]"}, {"*[1]string", "&[s:61]"},
		{"struct{A:chan:int}", "(nil)"}, {"struct{A:int;B:[2]int}", "(1,[1,2])"}, {"struct{a:chan:int;B:int}", "(nil,1)"}, {"struct{A:chan:int`-`;B:int}", "(nil,1)"},
		{"struct{A:func`,omit`;B:int}", "(nil,1)"}, {"struct{A:[2]int`-`;B:int}", "([1,2],2)"},
		{"struct{A:int`,inline`}", "(1)"}, {"struct{A:map[string]int`,inline`}", "({s:61=1})"}, {"struct{A:any`,inline`}", "(<@Inner>(1,s:61))"}, {"struct{A:any`,inline`}", "(nil)"},
		{"struct{A:*@Inner`,inline`}", "(&(1,s:61))"}, {"struct{A:@Inner`,inline,omitempty`}", "((1,s:61))"}, {"@EmbPtr", "(&(1,s:61),2)"}, {"@EmbPtr", "(nil,2)"},
		{"@EmbPtrPlain", "(&(1,s:61),2)"}, {"@Ifc", "(nil,nil,<@Inner>(1,s:61))"},
		{"struct{A:int`x`;B:int`x`}", "(1,2)"}, {"struct{A:int;a2:int;B:int`a`}", "(1,2,3)"}, {"struct{X:int;I:@Inner`,inline`}", "(1,(2,s:61))"},
		{"any", "<chan:int>nil"}, {"any", "<func>nil"}, {"any", "<complex128>c:00000000000000000000000000000000"}, {"any", "<uintptr>1"}, {"any", "<map[int]int>{1=1}"},
		{"any", "<[]chan:int>nil"}, {"any", "<struct{A:chan:int}>(nil)"}, {"[]any", "[<int>1,<func>nil]"}, {"map[string]any", "{s:61=<complex64>c:0000000000000000}"},
		{"struct{A:any}", "(<[2]chan:int>[nil,nil])"}, {"@NArr", "[1,2]"}, {"struct{A:@NArr}", "([1,2])"},
		// inlining two and three levels deep, no inlined struct at offset 0, fields after each inlined struct
		{"struct{ID:int64;Count:int8;Mid:struct{Port:uint16;Geo:struct{Lat:int64;Lon:int32`lon`}`,inline`;Tail:string`tail`}`,inline`;Last:bool}", "(1,2,(3,(4,5),s:74),true)"},
		{"struct{A:int8;M:struct{B:int16;N:struct{C:int32;O:struct{D:int64;E:string}`,squash`;F:bool}`,inline`;G:uint8}`,inline`;H:float64}", "(1,(2,(3,(4,s:65),true),6),f:401c000000000000)"},
		{"struct{A:string;M:struct{B:string;N:*struct{C:string;D:int}`,inline`}`,inline`;Z:int}", "(s:61,(s:62,&(s:63,4)),5)"},
		{"[]struct{A:int8;M:struct{B:int16;N:struct{C:int32}`,inline`}`,inline`}", "[(1,(2,(3))),(4,(5,(6)))]"},
	} {
		fuAll(emit, c[0], c[1])
	}
}

func init() {
	for _, p := range []string{"C11", "XFU"} {
		RegisterGen(p, genUnfAll(genFuShapes, genFuScalars, genFuRandom))
	}
}
