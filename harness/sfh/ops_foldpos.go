package sfh

import (
	"bytes"
	"fmt"
	"reflect"
	"sort"
	"strings"

	structform "github.com/elastic/go-structform"
	"github.com/elastic/go-structform/gotype"
	"github.com/elastic/go-structform/json"
)

// foldpos <type> <position>     (C12 rule 2: a value with a custom folder folds EXACTLY as that
// folder emits it — in every position)
//
// Types OUTSIDE the Lean menagerie: a Folder on the value / pointer receiver of types of EVERY
// kind that can carry one (struct, map, slice, array, scalar).  Every folder emits a marker
// string; the value is folded in the given position (top-level interface value, element of
// []interface{}, value of map[string]interface{}, struct field, element of a typed slice, value of
// a typed map, behind a pointer, in an interface-typed field) and the output must contain the
// marker exactly once and nothing of the value's own content.
//
//	-> marker | plain:<json> | err:<msg> | panic
type fpVMap map[string]int
type fpPMap map[string]int
type fpVSl []int
type fpPSl []int
type fpVArr [2]int
type fpPArr [2]int
type fpVSt struct{ A int }
type fpPSt struct{ A int }
type fpVInt int
type fpPInt int

func (fpVMap) Fold(v structform.ExtVisitor) error  { return v.OnString("MARK") }
func (*fpPMap) Fold(v structform.ExtVisitor) error { return v.OnString("MARK") }
func (fpVSl) Fold(v structform.ExtVisitor) error   { return v.OnString("MARK") }
func (*fpPSl) Fold(v structform.ExtVisitor) error  { return v.OnString("MARK") }
func (fpVArr) Fold(v structform.ExtVisitor) error  { return v.OnString("MARK") }
func (*fpPArr) Fold(v structform.ExtVisitor) error { return v.OnString("MARK") }
func (fpVSt) Fold(v structform.ExtVisitor) error   { return v.OnString("MARK") }
func (*fpPSt) Fold(v structform.ExtVisitor) error  { return v.OnString("MARK") }
func (fpVInt) Fold(v structform.ExtVisitor) error  { return v.OnString("MARK") }
func (*fpPInt) Fold(v structform.ExtVisitor) error { return v.OnString("MARK") }

var fpValues = map[string]interface{}{
	"VMap": fpVMap{"secret": 7}, "PMap": fpPMap{"secret": 7}, "VSl": fpVSl{777}, "PSl": fpPSl{777},
	"VArr": fpVArr{777, 778}, "PArr": fpPArr{777, 778}, "VSt": fpVSt{777}, "PSt": fpPSt{777},
	"VInt": fpVInt(777), "PInt": fpPInt(777),
}

var fpPositions = []string{"top", "anyslice", "anymap", "field", "ifield", "slice", "map", "ptr", "ptrfield", "anyptr"}

func fpPlace(v interface{}, pos string) interface{} {
	rv := reflect.ValueOf(v)
	t := rv.Type()
	ptr := reflect.New(t)
	ptr.Elem().Set(rv)
	switch pos {
	case "top":
		return v
	case "anyslice":
		return []interface{}{v}
	case "anymap":
		return map[string]interface{}{"k": v}
	case "field":
		st := reflect.New(reflect.StructOf([]reflect.StructField{{Name: "F", Type: t}})).Elem()
		st.Field(0).Set(rv)
		return st.Interface()
	case "ifield":
		return struct{ F interface{} }{v}
	case "slice":
		s := reflect.MakeSlice(reflect.SliceOf(t), 1, 1)
		s.Index(0).Set(rv)
		return s.Interface()
	case "map":
		m := reflect.MakeMap(reflect.MapOf(reflect.TypeOf(""), t))
		m.SetMapIndex(reflect.ValueOf("k"), rv)
		return m.Interface()
	case "ptr":
		return ptr.Interface()
	case "ptrfield":
		st := reflect.New(reflect.StructOf([]reflect.StructField{{Name: "F", Type: ptr.Type()}})).Elem()
		st.Field(0).Set(ptr)
		return st.Interface()
	case "anyptr":
		return []interface{}{ptr.Interface()}
	}
	return nil
}

func opFoldPos(args []string) (res string) {
	v, ok := fpValues[args[0]]
	if !ok {
		return "bad-type"
	}
	defer func() {
		if r := recover(); r != nil {
			res = "panic"
		}
	}()
	var buf bytes.Buffer
	if err := gotype.Fold(fpPlace(v, args[1]), json.NewVisitor(&buf)); err != nil {
		return "err:" + err.Error()
	}
	out := buf.String()
	if strings.Count(out, "MARK") == 1 && !strings.Contains(out, "77") && !strings.Contains(out, "secret") {
		return "marker"
	}
	return "plain:" + out
}

func genFoldPos(r *Rand, tier string, emit func(string)) {
	var ts []string
	for t := range fpValues {
		ts = append(ts, t)
	}
	sort.Strings(ts)
	for _, t := range ts {
		for _, p := range fpPositions {
			emit(fmt.Sprintf("foldpos %s %s", t, p))
		}
	}
}

func init() {
	RegisterOp("foldpos", opFoldPos)
	for _, p := range []string{"C12", "XFOLD"} {
		RegisterGen(p, genFoldPos)
	}
}
