package sfh

import (
	"bytes"
	"fmt"
	"strings"

	structform "github.com/elastic/go-structform"
	"github.com/elastic/go-structform/gotype"
	"github.com/elastic/go-structform/json"
)

// foldopts <use>;<use>;…        use = subset of "ABC" (which option values are passed) or "-"
//
// Option VALUES are created once per op line (as applications do at package level) and passed
// to NewIterator / NewUnfolder in varying combinations, one use after the other.  Every use is
// compared with the same use made with option values created just for it: an option value
// must not be changed by being used (C12: a value folds per the folders configured FOR THIS
// iterator; C17 / C19: instances built from shared option values do not influence each other).
//
//	-> same | differ@<i>:<shared>|<fresh>
type foA struct{ S string }
type foB struct{ N int }
type foC []string

type foDoc struct {
	A  foA
	B  foB
	C  foC
	PA *foA
	L  []interface{}
}

func foOptions() map[byte]gotype.FoldOption {
	return map[byte]gotype.FoldOption{
		'A': gotype.Folders(func(a *foA, v structform.ExtVisitor) error { return v.OnString(strings.ToUpper(a.S)) }),
		'B': gotype.Folders(func(b *foB, v structform.ExtVisitor) error { return v.OnInt(b.N * 10) }),
		'C': gotype.Folders(func(c *foC, v structform.ExtVisitor) error { return v.OnString(strings.Join(*c, "+")) }),
	}
}

func foUnfoldOptions() map[byte]gotype.UnfoldOption {
	return map[byte]gotype.UnfoldOption{
		'A': gotype.Unfolders(func(to *foA, s string) error { to.S = strings.ToLower(s); return nil }),
		'B': gotype.Unfolders(func(to *foB, n int64) error { to.N = int(n) / 10; return nil }),
		'C': gotype.Unfolders(func(to *foC, s string) error { *to = strings.Split(s, "+"); return nil }),
	}
}

func foUse(opts map[byte]gotype.FoldOption, uopts map[byte]gotype.UnfoldOption, use string) (res string) {
	defer func() {
		if r := recover(); r != nil {
			res = fmt.Sprintf("panic:%v", r)
		}
	}()
	var fo []gotype.FoldOption
	var uo []gotype.UnfoldOption
	for i := 0; i < len(use); i++ {
		if o, ok := opts[use[i]]; ok {
			fo = append(fo, o)
			uo = append(uo, uopts[use[i]])
		}
	}
	doc := foDoc{A: foA{"web"}, B: foB{7}, C: foC{"x", "y"}, PA: &foA{"ptr"}, L: []interface{}{foA{"in"}, &foB{3}, foC{"z"}}}
	var buf bytes.Buffer
	it, err := gotype.NewIterator(json.NewVisitor(&buf), fo...)
	if err != nil {
		return "err:iter"
	}
	if err := it.Fold(doc); err != nil {
		return "err:fold:" + buf.String()
	}
	// and back: unfold the text with the corresponding unfold options
	var back foDoc
	u, err := gotype.NewUnfolder(&back, uo...)
	if err != nil {
		return buf.String() + "=>err:unfolder"
	}
	if err := json.Parse(buf.Bytes(), u); err != nil {
		return buf.String() + "=>err:" + fmt.Sprintf("%+v", back)
	}
	pa := "nil"
	if back.PA != nil {
		pa = back.PA.S
	}
	return fmt.Sprintf("%s=>%v,%v,%v,%s", buf.String(), back.A, back.B, back.C, pa)
}

func opFoldOpts(args []string) string {
	shared, ushared := foOptions(), foUnfoldOptions()
	for i, use := range strings.Split(args[0], ";") {
		a := foUse(shared, ushared, use)
		b := foUse(foOptions(), foUnfoldOptions(), use)
		if a != b {
			return fmt.Sprintf("differ@%d:%s|%s", i, a, b)
		}
	}
	return "same"
}

func genFoldOpts(r *Rand, tier string, emit func(string)) {
	uses := []string{"-", "A", "B", "C", "AB", "BA", "AC", "CA", "BC", "CB", "ABC", "CBA", "BAC", "AA", "ABA"}
	for _, a := range uses {
		for _, b := range uses {
			emit("foldopts " + a + ";" + b)
			emit("foldopts " + a + ";" + b + ";" + a + ";-")
		}
	}
	n := tierN(tier, 200, 4000)
	for i := 0; i < n; i++ {
		var us []string
		for j := 0; j < 2+r.Intn(5); j++ {
			us = append(us, Pick(r, uses))
		}
		emit("foldopts " + strings.Join(us, ";"))
	}
}

func init() {
	RegisterOp("foldopts", opFoldOpts)
	for _, p := range []string{"C12", "C17", "C19", "XFOLD"} {
		RegisterGen(p, genFoldOpts)
	}
}
