package sfh

import "fmt"

// genFuDeep: dynamic containers nested 1..12 levels inside interface{} (chains of
// map[string]interface{}, of []interface{}, alternating; with and without members before /
// after the nested one at every level), and the same depth with static types — the unfolder's
// value buffers and stacks grow on the way down (initial capacities 4 / 8 / 32) and outer
// containers receive their first member only after the inner ones were finished.
func fuDeepValues() [][2]string {
	var out [][2]string
	for depth := 1; depth <= 12; depth++ {
		// kinds: which container at odd / even levels; extra: a member before (b) / after (a) / none (-)
		for _, sh := range [][2]string{{"mm", "-"}, {"ss", "-"}, {"ms", "-"}, {"sm", "-"}, {"mm", "b"}, {"mm", "a"}, {"ss", "b"}, {"ms", "b"}, {"sm", "a"}} {
			v := "<int>7"
			for l := depth; l >= 1; l-- {
				kind := sh[0][l%2]
				switch {
				case kind == 'm' && sh[1] == "b":
					v = "<map[string]any>{s:61=<int>" + fmt.Sprint(l) + ",s:6e=" + v + "}"
				case kind == 'm' && sh[1] == "a":
					v = "<map[string]any>{s:6e=" + v + ",s:7a=<string>s:7a}"
				case kind == 'm':
					v = "<map[string]any>{s:6e=" + v + "}"
				case sh[1] == "b":
					v = "<[]any>[<int>" + fmt.Sprint(l) + "," + v + "]"
				case sh[1] == "a":
					v = "<[]any>[" + v + ",nil]"
				default:
					v = "<[]any>[" + v + "]"
				}
			}
			out = append(out, [2]string{"any", v})
		}
		// static nesting of the same depth
		t, v := "int", "7"
		for l := 0; l < depth; l++ {
			if l%2 == 0 {
				t, v = "map[string]"+t, "{s:6b="+v+"}"
			} else {
				t, v = "[]"+t, "["+v+"]"
			}
		}
		out = append(out, [2]string{t, v}, [2]string{"any", "<" + t + ">" + v}, [2]string{"*" + t, "&" + v})
	}
	return out
}

func genFuDeep(r *Rand, tier string, emit func(string)) {
	for _, tv := range fuDeepValues() {
		for _, p := range fuPaths {
			if tier != "thorough" && p != "direct" && !r.P(40) {
				continue
			}
			emit(fmt.Sprintf("fu %s %s %s", tv[0], tv[1], p))
		}
		// single-member maps only: the order of members is then defined
		emit(fmt.Sprintf("fu struct{A:any;B:[]any;C:map[string]any} (%s,[%s],{s:6b=%s}) %s", anyVal(tv), anyVal(tv), anyVal(tv), Pick(r, fuPaths)))
	}
}

func anyVal(tv [2]string) string {
	if tv[0] == "any" {
		return tv[1]
	}
	return "<" + tv[0] + ">" + tv[1]
}

func init() {
	for _, p := range []string{"C11", "XFU"} {
		RegisterGen(p, genFuDeep)
	}
}
