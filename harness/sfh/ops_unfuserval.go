package sfh

import (
	"fmt"
	"reflect"
	"sort"
	"strconv"
	"strings"

	structform "github.com/elastic/go-structform"
	"github.com/elastic/go-structform/gotype"
	"github.com/elastic/go-structform/json"
)

// unf-userval <seed>      (C13 / C14: the VALUE an Unfolder configured with user unfolders builds)
//
// A record value R is drawn from <seed>; its document is written by the harness' own JSON writer
// below (not by the library); the document is unfolded into a zero record by an Unfolder
// configured with user unfolders of every kind — a stateful UnfoldState, a primitive unfolder,
// processing unfolders (one over a raw cell of a RECURSIVE type, one whose cell type ALTERNATES
// between calls), an Expander — reached directly, through pointers (*T, **T), as slice / map
// elements and as pointer elements; the result must be R.  Both through the JSON parser and with
// the events played directly (Fold of the generic document into the Unfolder).
//
//	-> same | differ:<route>:<got>|<want> | err:<route>:<msg> | panic:<route>
type uvLevel int
type uvTemp float64
type uvPair struct{ A, B int }
type uvOffset int
type uvExp int
type uvNode struct {
	Label string
	Kids  []uvNode
}
type uvUnion struct {
	I int64
	S string
}

type uvRecord struct {
	L   uvLevel
	PL  *uvLevel
	PPL **uvLevel
	LL  []uvLevel
	LPL []*uvLevel
	ML  map[string]uvLevel
	MPL map[string]*uvLevel
	T   uvTemp
	PT  *uvTemp
	LT  []uvTemp
	P   uvPair
	PP  *uvPair
	LP  []uvPair
	O   uvOffset
	PO  *uvOffset
	PPO **uvOffset
	MO  map[string]uvOffset
	E   uvExp
	PE  *uvExp
	LE  []uvExp
	N   uvNode
	PN  *uvNode
	LN  []uvNode
	U1  uvUnion
	U2  uvUnion
	U3  *uvUnion
	Z   int
}

var uvLevelNames = []string{"none", "low", "medium", "high"}

type uvLevelState struct {
	gotype.BaseUnfoldState
	to *uvLevel
}

func (s *uvLevelState) OnString(ctx gotype.UnfoldCtx, name string) error {
	defer ctx.Done()
	for i, n := range uvLevelNames {
		if n == name {
			*s.to = uvLevel(i)
			return nil
		}
	}
	return fmt.Errorf("unknown level %q", name)
}

type uvExpState struct {
	gotype.BaseUnfoldState
	to *uvExp
}

func (s *uvExpState) OnString(ctx gotype.UnfoldCtx, str string) error {
	defer ctx.Done()
	n, err := strconv.Atoi(strings.TrimPrefix(str, "exp"))
	*s.to = uvExp(n)
	return err
}
func (e *uvExp) Expand() gotype.UnfoldState { return &uvExpState{to: e} }

type uvRawNode struct {
	Label string
	Kids  []uvNode
}

// uvOptions: fresh option values (the union's cell type alternates per Unfolder built from them)
func uvOptions() gotype.UnfoldOption {
	calls := 0
	return gotype.Unfolders(
		func(to *uvLevel) gotype.UnfoldState { return &uvLevelState{to: to} },
		func(to *uvTemp, from string) error {
			f, err := strconv.ParseFloat(strings.TrimSuffix(from, "C"), 64)
			*to = uvTemp(f)
			return err
		},
		func(to *uvPair) (interface{}, func(*uvPair, interface{}) error) {
			cell := &[]int{}
			return cell, func(to *uvPair, cell interface{}) error {
				xs := *(cell.(*[]int))
				if len(xs) != 2 {
					return fmt.Errorf("pair needs 2 elements")
				}
				to.A, to.B = xs[0], xs[1]
				return nil
			}
		},
		func(to *uvOffset) (interface{}, func(*uvOffset, interface{}) error) {
			cell := new(int)
			return cell, func(to *uvOffset, cell interface{}) error {
				*to = uvOffset(*(cell.(*int)) + 1000)
				return nil
			}
		},
		// a recursive type read through a raw cell that again contains values of the type
		func(to *uvNode) (interface{}, func(*uvNode, interface{}) error) {
			cell := &uvRawNode{}
			return cell, func(to *uvNode, cell interface{}) error {
				raw := cell.(*uvRawNode)
				to.Label, to.Kids = "<"+raw.Label+">", raw.Kids
				return nil
			}
		},
		// a tagged union: the cell is an *int64 on odd calls, a *string on even calls
		func(to *uvUnion) (interface{}, func(*uvUnion, interface{}) error) {
			calls++
			if calls%2 == 1 {
				return new(int64), func(to *uvUnion, cell interface{}) error { to.I = *(cell.(*int64)); return nil }
			}
			return new(string), func(to *uvUnion, cell interface{}) error { to.S = *(cell.(*string)); return nil }
		},
	)
}

// ---- the harness' own writer: record -> generic document (maps / slices / scalars) -> JSON text

func uvDocOf(v reflect.Value) interface{} {
	switch x := v.Interface().(type) {
	case uvLevel:
		return uvLevelNames[int(x)]
	case uvTemp:
		return strconv.FormatFloat(float64(x), 'g', -1, 64) + "C"
	case uvPair:
		return []interface{}{int64(x.A), int64(x.B)}
	case uvOffset:
		return int64(x) - 1000
	case uvExp:
		return "exp" + strconv.Itoa(int(x))
	case uvNode:
		kids := []interface{}{}
		for _, k := range x.Kids {
			kids = append(kids, uvDocOf(reflect.ValueOf(k)))
		}
		return map[string]interface{}{"label": strings.TrimSuffix(strings.TrimPrefix(x.Label, "<"), ">"), "kids": kids}
	case int:
		return int64(x)
	}
	switch v.Kind() {
	case reflect.Ptr:
		return uvDocOf(v.Elem())
	case reflect.Slice:
		out := []interface{}{}
		for i := 0; i < v.Len(); i++ {
			out = append(out, uvDocOf(v.Index(i)))
		}
		return out
	case reflect.Map:
		out := map[string]interface{}{}
		it := v.MapRange()
		for it.Next() {
			out[it.Key().String()] = uvDocOf(it.Value())
		}
		return out
	}
	panic("uvDocOf: " + v.Type().String())
}

type uvMember struct {
	key string
	val interface{}
}

func uvWriteJSON(sb *strings.Builder, d interface{}) {
	switch x := d.(type) {
	case string:
		sb.WriteString(strconv.Quote(x))
	case int64:
		sb.WriteString(strconv.FormatInt(x, 10))
	case []interface{}:
		sb.WriteByte('[')
		for i, e := range x {
			if i > 0 {
				sb.WriteByte(',')
			}
			uvWriteJSON(sb, e)
		}
		sb.WriteByte(']')
	case map[string]interface{}:
		var ks []string
		for k := range x {
			ks = append(ks, k)
		}
		sort.Strings(ks)
		sb.WriteByte('{')
		for i, k := range ks {
			if i > 0 {
				sb.WriteByte(',')
			}
			sb.WriteString(strconv.Quote(k) + ":")
			uvWriteJSON(sb, x[k])
		}
		sb.WriteByte('}')
	case []uvMember:
		sb.WriteByte('{')
		for i, m := range x {
			if i > 0 {
				sb.WriteByte(',')
			}
			sb.WriteString(strconv.Quote(m.key) + ":")
			uvWriteJSON(sb, m.val)
		}
		sb.WriteByte('}')
	default:
		panic(fmt.Sprintf("uvWriteJSON: %T", d))
	}
}

// ---- random record (only the fields that are set appear in the document)

func uvRandRecord(r *Rand) (uvRecord, []uvMember) {
	var R uvRecord
	var doc []uvMember
	lvl := func() uvLevel { return uvLevel(r.Intn(4)) }
	node := func(depth int) uvNode { return uvNode{} }
	var mkNode func(depth int) uvNode
	mkNode = func(depth int) uvNode {
		n := uvNode{Label: "<" + string(rune('a'+r.Intn(26))) + strconv.Itoa(depth) + ">", Kids: []uvNode{}}
		if depth < 3 {
			for i := 0; i < r.Intn(3); i++ {
				n.Kids = append(n.Kids, mkNode(depth+1))
			}
		}
		return n
	}
	_ = node
	set := func(name string, f func()) {
		if r.P(65) {
			f()
			fv := reflect.ValueOf(R).FieldByName(name)
			doc = append(doc, uvMember{strings.ToLower(name), uvDocOf(fv)})
		}
	}
	set("L", func() { R.L = lvl() })
	set("PL", func() { l := lvl(); R.PL = &l })
	set("PPL", func() { l := lvl(); p := &l; R.PPL = &p })
	set("LL", func() { R.LL = []uvLevel{lvl(), lvl()} })
	set("LPL", func() { a, b := lvl(), lvl(); R.LPL = []*uvLevel{&a, &b} })
	set("ML", func() { R.ML = map[string]uvLevel{"x": lvl(), "y": lvl()} })
	set("MPL", func() { a := lvl(); R.MPL = map[string]*uvLevel{"x": &a} })
	set("T", func() { R.T = uvTemp(float64(r.Intn(400))/8 - 10) })
	set("PT", func() { t := uvTemp(float64(r.Intn(100)) / 4); R.PT = &t })
	set("LT", func() { R.LT = []uvTemp{1.5, uvTemp(r.Intn(50))} })
	set("P", func() { R.P = uvPair{r.Intn(100), -r.Intn(100)} })
	set("PP", func() { R.PP = &uvPair{r.Intn(9), r.Intn(9)} })
	set("LP", func() { R.LP = []uvPair{{1, 2}, {r.Intn(9), 4}} })
	set("O", func() { R.O = uvOffset(1000 + r.Intn(50)) })
	set("PO", func() { o := uvOffset(1000 + r.Intn(50)); R.PO = &o })
	set("PPO", func() { o := uvOffset(1000 + r.Intn(50)); p := &o; R.PPO = &p })
	set("MO", func() { R.MO = map[string]uvOffset{"k": uvOffset(1000 + r.Intn(50))} })
	set("E", func() { R.E = uvExp(r.Intn(1000)) })
	set("PE", func() { e := uvExp(r.Intn(1000)); R.PE = &e })
	set("LE", func() { R.LE = []uvExp{uvExp(r.Intn(9)), uvExp(r.Intn(9))} })
	set("N", func() { R.N = mkNode(0) })
	set("PN", func() { n := mkNode(1); R.PN = &n })
	set("LN", func() { R.LN = []uvNode{mkNode(2), mkNode(1)} })
	// the union: U1 gets a number (first call: *int64 cell), U2 a string (second call: *string
	// cell), U3 a number again; set together so that the calls alternate as the document does
	if r.P(70) {
		R.U1 = uvUnion{I: int64(r.Intn(1000))}
		R.U2 = uvUnion{S: "s" + strconv.Itoa(r.Intn(100))}
		doc = append(doc, uvMember{"u1", R.U1.I}, uvMember{"u2", R.U2.S})
		if r.P(50) {
			R.U3 = &uvUnion{I: int64(r.Intn(1000))}
			doc = append(doc, uvMember{"u3", R.U3.I})
		}
	}
	set("Z", func() { R.Z = r.Intn(1000) })
	return R, doc
}

func uvPrint(R uvRecord) string {
	var sb strings.Builder
	v := reflect.ValueOf(R)
	for i := 0; i < v.NumField(); i++ {
		f := v.Field(i)
		for f.Kind() == reflect.Ptr && !f.IsNil() {
			sb.WriteByte('&')
			f = f.Elem()
		}
		sb.WriteString(fmt.Sprintf("%s=", v.Type().Field(i).Name))
		uvPrintVal(&sb, f)
		sb.WriteByte(' ')
	}
	return sb.String()
}

func uvPrintVal(sb *strings.Builder, f reflect.Value) {
	switch f.Kind() {
	case reflect.Ptr:
		if f.IsNil() {
			sb.WriteString("nil")
			return
		}
		sb.WriteByte('&')
		uvPrintVal(sb, f.Elem())
	case reflect.Slice:
		if f.IsNil() || f.Len() == 0 { // nil and empty slices are identified
			sb.WriteString("nil")
			return
		}
		sb.WriteByte('[')
		for i := 0; i < f.Len(); i++ {
			uvPrintVal(sb, f.Index(i))
			sb.WriteByte(',')
		}
		sb.WriteByte(']')
	case reflect.Map:
		if f.IsNil() {
			sb.WriteString("nil")
			return
		}
		var ks []string
		for _, k := range f.MapKeys() {
			ks = append(ks, k.String())
		}
		sort.Strings(ks)
		sb.WriteByte('{')
		for _, k := range ks {
			sb.WriteString(k + ":")
			uvPrintVal(sb, f.MapIndex(reflect.ValueOf(k)))
			sb.WriteByte(',')
		}
		sb.WriteByte('}')
	case reflect.Struct:
		sb.WriteByte('(')
		for i := 0; i < f.NumField(); i++ {
			uvPrintVal(sb, f.Field(i))
			sb.WriteByte(';')
		}
		sb.WriteByte(')')
	default:
		sb.WriteString(fmt.Sprint(f.Interface()))
	}
}

func uvRoute(route string, text string, generic interface{}) (res string) {
	defer func() {
		if rec := recover(); rec != nil {
			res = "panic:" + route
		}
	}()
	var got uvRecord
	u, err := gotype.NewUnfolder(&got, uvOptions())
	if err != nil {
		return "err:" + route + ":unfolder"
	}
	if route == "json" {
		err = json.ParseString(text, u)
	} else {
		err = gotype.Fold(generic, structform.Visitor(u))
	}
	if err != nil {
		return "err:" + route + ":" + err.Error()
	}
	return uvPrint(got)
}

func uvGeneric(d interface{}) interface{} {
	switch x := d.(type) {
	case []uvMember:
		// member ORDER matters for the union: an ordered document needs a struct-free carrier, so
		// the direct route folds a slice of single-member maps?  No: play it as one map — Go map
		// order is random, therefore the direct route leaves the union members out (see opUnfUserVal)
		m := map[string]interface{}{}
		for _, e := range x {
			m[e.key] = uvGeneric(e.val)
		}
		return m
	case []interface{}:
		out := make([]interface{}, len(x))
		for i := range x {
			out[i] = uvGeneric(x[i])
		}
		return out
	case map[string]interface{}:
		out := map[string]interface{}{}
		for k, v := range x {
			out[k] = uvGeneric(v)
		}
		return out
	}
	return d
}

func opUnfUserVal(args []string) string {
	seed, _ := strconv.ParseUint(args[0], 10, 64)
	r := NewRand(seed)
	R, doc := uvRandRecord(r)
	want := uvPrint(R)
	var sb strings.Builder
	uvWriteJSON(&sb, doc)
	if got := uvRoute("json", sb.String(), nil); got != want {
		if strings.HasPrefix(got, "err:") || strings.HasPrefix(got, "panic:") {
			return got + " doc=" + sb.String()
		}
		return "differ:json:" + got + "|" + want + " doc=" + sb.String()
	}
	// direct route: the union needs its members in document order, a Go map has none: left out
	var doc2 []uvMember
	R2 := R
	for _, m := range doc {
		if m.key != "u1" && m.key != "u2" && m.key != "u3" {
			doc2 = append(doc2, m)
		}
	}
	R2.U1, R2.U2, R2.U3 = uvUnion{}, uvUnion{}, nil
	if got, want2 := uvRoute("direct", "", uvGeneric(doc2)), uvPrint(R2); got != want2 {
		if strings.HasPrefix(got, "err:") || strings.HasPrefix(got, "panic:") {
			return got
		}
		return "differ:direct:" + got + "|" + want2
	}
	return "same"
}

func genUnfUserVal(r *Rand, tier string, emit func(string)) {
	n := tierN(tier, 400, 8000)
	for i := 0; i < n; i++ {
		emit("unf-userval " + strconv.FormatUint(r.U64()>>1, 10))
	}
}

func init() {
	RegisterOp("unf-userval", opUnfUserVal)
	for _, p := range []string{"C13", "C14", "XUNF"} {
		RegisterGen(p, genUnfUserVal)
	}
}
