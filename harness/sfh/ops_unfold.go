package sfh

// Ops driving gotype.Unfolder (properties C13 C14 C17 C20) and the pieces they need:
// a type grammar over a fixed menagerie of struct types, a canonical printer / parser of Go
// values (DESIGN appendix C), and the ops
//
//	unf       <type> <init|-> <cache n|-> <xevents>
//	unf-reuse <type> <cache n|-> <doc;doc;...;probe>      doc := [a<k>:]xevents
//	unf-type  <type>
//
// The Lean side (SF/Gotype/Unfold.lean, SF/Ops/Unfold.lean) mirrors these exactly.

import (
	"fmt"
	"math"
	"reflect"
	"runtime"
	"sort"
	"strconv"
	"strings"
	"unsafe"

	structform "github.com/elastic/go-structform"
	"github.com/elastic/go-structform/gotype"
)

// ---------------------------------------------------------------------------
// menagerie: struct targets declared in Go source, mirrored by hand-written Lean
// descriptors (SF/Gotype/Menagerie.lean); op unf-type compares the two.

type UIn struct {
	X int
	Y string `struct:"why"`
}

type UIn2 struct {
	P uint8
	Q []interface{}
	R map[string]interface{}
}

type US1 struct {
	A      int
	B      string `struct:"bee"`
	C      []int16
	D      map[string]uint8
	E      interface{}
	F      float32
	G      bool
	hidden int
	H      *int
	I      UIn
	J      *UIn
	K      int    `struct:"-"`
	L      uint64 `struct:",omitempty"`
	M      int    `struct:"m2,omit"`
}

type US2 struct {
	Ins []UIn                     `struct:"ins"`
	Inm map[string]UIn            `struct:"inm"`
	PP  **UIn                     `struct:"pp"`
	Ps  []*UIn                    `struct:"ps"`
	Pm  map[string]*UIn           `struct:"pm"`
	SS  [][]int                   `struct:"ss"`
	MS  map[string][]string       `struct:"ms"`
	SM  []map[string]interface{}  `struct:"sm"`
	MM  map[string]map[string]int `struct:"mm"`
}

type US3 struct {
	A   int
	UIn `struct:",inline"`
	Z   UIn2   `struct:",squash"`
	B   string `struct:" b2 , omitempty "`
}

// two levels of inlining, neither inlined struct at offset 0, fields after each inlined struct
type UGeo struct {
	Lat int64
	Lon int32 `struct:"lon"`
}
type UMid struct {
	Port uint16
	Geo  UGeo   `struct:",inline"`
	Tail string `struct:"tail"`
}
type US4 struct {
	ID    int64
	Count int8
	Mid   UMid `struct:",inline"`
	Last  bool
}

// a zero-size element type
type UEmpty struct{}

type UBadInline struct {
	P *UIn `struct:",inline"`
}

type UDup struct {
	A int
	B int `struct:"a"`
}

type UArr struct {
	A [3]int
}

type UIMap struct {
	M map[int]string
}

// named and self-referential types (phase 2)

type UList struct {
	V    int
	Next *UList
}

type UTree struct {
	Name string
	Kids []UTree
	M    map[string]*UTree
	Up   **UTree `struct:"up"`
}

type UA struct {
	B *UB
	N int
}

type UB struct {
	A  *UA
	S  string
	As []UA
}

type URL []URL
type URM map[string]URM

type UBadA struct {
	B   *UBadB
	Bad [3]int
}

type UBadB struct {
	A *UBadA
	X int
}

type UMyInt int32
type UMyStr string
type UMyBool bool
type UMyF float64
type UMyU8 uint8
type UStrs []string
type UMyInts []UMyInt
type UM map[string]UMyInt
type UMAny map[string]interface{}
type UAnys []interface{}
type UPInt *int
type UMyAny interface{}
type UMyIn UIn
type UKM map[UMyStr]int
type UKMS map[UMyStr]*UIn

type UNamed struct {
	I  UMyInt
	S  UMyStr
	B  UMyBool
	F  UMyF
	L  UStrs
	Is UMyInts
	M  UM
	A  UMAny
	P  UPInt
	PI *UMyInt
	LI []UMyInt
	MI map[string]UMyU8
	Ay UMyAny
	In UMyIn `struct:",inline"`
	K  UKM
	LL []UStrs
}

var menagerie = map[string]reflect.Type{
	"List": reflect.TypeOf(UList{}), "Tree": reflect.TypeOf(UTree{}), "A": reflect.TypeOf(UA{}), "B": reflect.TypeOf(UB{}),
	"RL": reflect.TypeOf(URL(nil)), "RM": reflect.TypeOf(URM(nil)),
	"BadA": reflect.TypeOf(UBadA{}), "BadB": reflect.TypeOf(UBadB{}),
	"MyInt": reflect.TypeOf(UMyInt(0)), "MyStr": reflect.TypeOf(UMyStr("")), "MyBool": reflect.TypeOf(UMyBool(false)),
	"MyF": reflect.TypeOf(UMyF(0)), "MyU8": reflect.TypeOf(UMyU8(0)), "Strs": reflect.TypeOf(UStrs(nil)),
	"MyInts": reflect.TypeOf(UMyInts(nil)), "M": reflect.TypeOf(UM(nil)), "MAny": reflect.TypeOf(UMAny(nil)),
	"Anys": reflect.TypeOf(UAnys(nil)), "PInt": reflect.TypeOf(UPInt(nil)),
	"MyAny": reflect.TypeOf((*UMyAny)(nil)).Elem(), "MyIn": reflect.TypeOf(UMyIn{}), "KM": reflect.TypeOf(UKM(nil)), "KMS": reflect.TypeOf(UKMS(nil)),
	"Named":     reflect.TypeOf(UNamed{}),
	"In":        reflect.TypeOf(UIn{}),
	"In2":       reflect.TypeOf(UIn2{}),
	"S1":        reflect.TypeOf(US1{}),
	"S2":        reflect.TypeOf(US2{}),
	"S3":        reflect.TypeOf(US3{}),
	"Geo":       reflect.TypeOf(UGeo{}),
	"Mid":       reflect.TypeOf(UMid{}),
	"S4":        reflect.TypeOf(US4{}),
	"Empty":     reflect.TypeOf(UEmpty{}),
	"BadInline": reflect.TypeOf(UBadInline{}),
	"Dup":       reflect.TypeOf(UDup{}),
	"Arr":       reflect.TypeOf(UArr{}),
	"IMap":      reflect.TypeOf(UIMap{}),
}

var menagerieNames = func() map[reflect.Type]string {
	m := map[reflect.Type]string{}
	for n, t := range menagerie {
		m[t] = n
	}
	return m
}()

var primTypes = map[string]reflect.Type{
	"bool": reflect.TypeOf(false), "string": reflect.TypeOf(""),
	"int": reflect.TypeOf(int(0)), "int8": reflect.TypeOf(int8(0)), "int16": reflect.TypeOf(int16(0)),
	"int32": reflect.TypeOf(int32(0)), "int64": reflect.TypeOf(int64(0)),
	"uint": reflect.TypeOf(uint(0)), "uint8": reflect.TypeOf(uint8(0)), "uint16": reflect.TypeOf(uint16(0)),
	"uint32": reflect.TypeOf(uint32(0)), "uint64": reflect.TypeOf(uint64(0)),
	"float32": reflect.TypeOf(float32(0)), "float64": reflect.TypeOf(float64(0)),
	"any": reflect.TypeOf((*interface{})(nil)).Elem(),
}

// UParseType: type := bool|string|int…|float64|any | "[]"type | "["n"]"type | "map:"type |
// "imap:"type | "*"type | "@"Name
func UParseType(s string) (reflect.Type, bool) {
	t, rest, ok := uParseType(s)
	return t, ok && rest == ""
}

func uParseType(s string) (reflect.Type, string, bool) {
	switch {
	case strings.HasPrefix(s, "[]"):
		t, r, ok := uParseType(s[2:])
		if !ok {
			return nil, "", false
		}
		return reflect.SliceOf(t), r, true
	case strings.HasPrefix(s, "["):
		j := strings.IndexByte(s, ']')
		if j < 0 {
			return nil, "", false
		}
		n, err := strconv.Atoi(s[1:j])
		if err != nil {
			return nil, "", false
		}
		t, r, ok := uParseType(s[j+1:])
		if !ok {
			return nil, "", false
		}
		return reflect.ArrayOf(n, t), r, true
	case strings.HasPrefix(s, "*"):
		t, r, ok := uParseType(s[1:])
		if !ok {
			return nil, "", false
		}
		return reflect.PtrTo(t), r, true
	case strings.HasPrefix(s, "map:"):
		t, r, ok := uParseType(s[4:])
		if !ok {
			return nil, "", false
		}
		return reflect.MapOf(primTypes["string"], t), r, true
	case strings.HasPrefix(s, "imap:"):
		t, r, ok := uParseType(s[5:])
		if !ok {
			return nil, "", false
		}
		return reflect.MapOf(primTypes["int"], t), r, true
	}
	j := 0
	if strings.HasPrefix(s, "@") {
		j = 1
	}
	for j < len(s) && (s[j] == '_' || s[j] >= '0' && s[j] <= '9' || s[j] >= 'a' && s[j] <= 'z' || s[j] >= 'A' && s[j] <= 'Z') {
		j++
	}
	name, rest := s[:j], s[j:]
	if strings.HasPrefix(name, "@") {
		t, ok := menagerie[name[1:]]
		return t, rest, ok
	}
	t, ok := primTypes[name]
	return t, rest, ok
}

func UTypeName(t reflect.Type) string {
	if n, ok := menagerieNames[t]; ok {
		return "@" + n
	}
	return uTypeNameStructural(t)
}

// one level structurally: the type a named type is declared as
func uTypeNameStructural(t reflect.Type) string {
	switch t.Kind() {
	case reflect.Interface:
		return "any"
	case reflect.Slice:
		return "[]" + UTypeName(t.Elem())
	case reflect.Array:
		return fmt.Sprintf("[%d]%s", t.Len(), UTypeName(t.Elem()))
	case reflect.Ptr:
		return "*" + UTypeName(t.Elem())
	case reflect.Map:
		if t.Key().Kind() == reflect.String {
			return "map:" + UTypeName(t.Elem())
		}
		return "imap:" + UTypeName(t.Elem())
	case reflect.Struct:
		// a struct type declared from another one (type UMyIn UIn): name of the original
		for n, m := range menagerie {
			if m != t && m.Kind() == reflect.Struct && m.ConvertibleTo(t) && menagerieNames[m] == n && isFirstDecl(n) {
				return "@" + n
			}
		}
		return "@?"
	}
	return t.Kind().String()
}

// isFirstDecl: struct types that are not declared in terms of another menagerie struct
func isFirstDecl(n string) bool { return n != "MyIn" }

// unf-type <type>: the struct description reflect reports
func opUnfType(args []string) string {
	t, ok := UParseType(args[0])
	if !ok {
		return "bad-type"
	}
	if _, named := menagerieNames[t]; named && (t.Kind() != reflect.Struct || args[0] == "@MyIn") {
		return UTypeName(t) + "=" + uTypeNameStructural(t)
	}
	if t.Kind() != reflect.Struct {
		return UTypeName(t)
	}
	var fs []string
	for i := 0; i < t.NumField(); i++ {
		f := t.Field(i)
		s := f.Name + ":" + UTypeName(f.Type)
		if tag := f.Tag.Get("struct"); tag != "" {
			s += "`" + tag + "`"
		}
		fs = append(fs, s)
	}
	return UTypeName(t) + "{" + strings.Join(fs, ";") + "}"
}

// ---------------------------------------------------------------------------
// canonical values

// bits of a float without going through a float conversion (which would quiet NaNs)
func rawCopy(v reflect.Value) reflect.Value {
	if v.CanAddr() {
		return v
	}
	nv := reflect.New(v.Type()).Elem()
	nv.Set(v)
	return nv
}

func settable(v reflect.Value) reflect.Value {
	if v.CanSet() {
		return v
	}
	return reflect.NewAt(v.Type(), unsafe.Pointer(v.UnsafeAddr())).Elem()
}

// UPrintVal: bool true|false, string s:<hex>, integers decimal, floats f:<hex>, slice
// nil|[v,v], map nil|{<hexkey>=v,...} sorted, pointer nil|&v, struct (v,v,...), interface
// nil|<type>v.
func UPrintVal(v reflect.Value) string {
	var sb strings.Builder
	uPrintVal(&sb, v)
	return sb.String()
}

func uPrintVal(sb *strings.Builder, v reflect.Value) {
	switch v.Kind() {
	case reflect.Bool:
		if v.Bool() {
			sb.WriteString("true")
		} else {
			sb.WriteString("false")
		}
	case reflect.String:
		sb.WriteString("s:" + hx([]byte(v.String())))
	case reflect.Int, reflect.Int8, reflect.Int16, reflect.Int32, reflect.Int64:
		sb.WriteString(strconv.FormatInt(v.Int(), 10))
	case reflect.Uint, reflect.Uint8, reflect.Uint16, reflect.Uint32, reflect.Uint64:
		sb.WriteString(strconv.FormatUint(v.Uint(), 10))
	case reflect.Float32:
		a := rawCopy(v)
		fmt.Fprintf(sb, "f:%08x", *(*uint32)(unsafe.Pointer(a.UnsafeAddr())))
	case reflect.Float64:
		a := rawCopy(v)
		fmt.Fprintf(sb, "f:%016x", *(*uint64)(unsafe.Pointer(a.UnsafeAddr())))
	case reflect.Interface:
		if v.IsNil() {
			sb.WriteString("nil")
			return
		}
		e := v.Elem()
		sb.WriteString("<" + UTypeName(e.Type()) + ">")
		uPrintVal(sb, e)
	case reflect.Slice:
		if v.IsNil() {
			sb.WriteString("nil")
			return
		}
		sb.WriteByte('[')
		for i := 0; i < v.Len(); i++ {
			if i > 0 {
				sb.WriteByte(',')
			}
			uPrintVal(sb, v.Index(i))
		}
		sb.WriteByte(']')
	case reflect.Map:
		if v.IsNil() {
			sb.WriteString("nil")
			return
		}
		type kv struct {
			k string
			v reflect.Value
		}
		var kvs []kv
		it := v.MapRange()
		for it.Next() {
			kvs = append(kvs, kv{hx([]byte(it.Key().String())), it.Value()})
		}
		sort.Slice(kvs, func(i, j int) bool { return kvs[i].k < kvs[j].k })
		sb.WriteByte('{')
		for i, e := range kvs {
			if i > 0 {
				sb.WriteByte(',')
			}
			sb.WriteString(e.k + "=")
			uPrintVal(sb, e.v)
		}
		sb.WriteByte('}')
	case reflect.Ptr:
		if v.IsNil() {
			sb.WriteString("nil")
			return
		}
		sb.WriteByte('&')
		uPrintVal(sb, v.Elem())
	case reflect.Struct:
		sb.WriteByte('(')
		for i := 0; i < v.NumField(); i++ {
			if i > 0 {
				sb.WriteByte(',')
			}
			uPrintVal(sb, v.Field(i))
		}
		sb.WriteByte(')')
	default:
		sb.WriteByte('?')
	}
}

type uvParser struct {
	s string
	i int
}

func (p *uvParser) has(pre string) bool {
	if strings.HasPrefix(p.s[p.i:], pre) {
		p.i += len(pre)
		return true
	}
	return false
}

func (p *uvParser) run(f func(c byte) bool) string {
	j := p.i
	for j < len(p.s) && f(p.s[j]) {
		j++
	}
	out := p.s[p.i:j]
	p.i = j
	return out
}

func isHexByte(c byte) bool { return c >= '0' && c <= '9' || c >= 'a' && c <= 'f' }

// parse fills the settable value v; panics on syntax errors (op lines are generated)
func (p *uvParser) parse(v reflect.Value) {
	v = settable(v)
	switch v.Kind() {
	case reflect.Bool:
		if p.has("true") {
			v.SetBool(true)
		} else if p.has("false") {
			v.SetBool(false)
		} else {
			panic("bad bool value")
		}
	case reflect.String:
		if !p.has("s:") {
			panic("bad string value")
		}
		v.SetString(string(mustHex(p.run(isHexByte))))
	case reflect.Int, reflect.Int8, reflect.Int16, reflect.Int32, reflect.Int64:
		n, err := strconv.ParseInt(p.run(func(c byte) bool { return c == '-' || c >= '0' && c <= '9' }), 10, 64)
		if err != nil {
			panic("bad int value")
		}
		v.SetInt(n)
	case reflect.Uint, reflect.Uint8, reflect.Uint16, reflect.Uint32, reflect.Uint64:
		n, err := strconv.ParseUint(p.run(func(c byte) bool { return c >= '0' && c <= '9' }), 10, 64)
		if err != nil {
			panic("bad uint value")
		}
		v.SetUint(n)
	case reflect.Float32:
		if !p.has("f:") {
			panic("bad float value")
		}
		n, err := strconv.ParseUint(p.run(isHexByte), 16, 32)
		if err != nil {
			panic("bad float32 value")
		}
		*(*uint32)(unsafe.Pointer(v.UnsafeAddr())) = uint32(n)
	case reflect.Float64:
		if !p.has("f:") {
			panic("bad float value")
		}
		n, err := strconv.ParseUint(p.run(isHexByte), 16, 64)
		if err != nil {
			panic("bad float64 value")
		}
		*(*uint64)(unsafe.Pointer(v.UnsafeAddr())) = n
	case reflect.Interface:
		if p.has("nil") {
			v.Set(reflect.Zero(v.Type()))
			return
		}
		if !p.has("<") {
			panic("bad interface value")
		}
		j := strings.IndexByte(p.s[p.i:], '>')
		t, ok := UParseType(p.s[p.i : p.i+j])
		if !ok {
			panic("bad dynamic type")
		}
		p.i += j + 1
		nv := reflect.New(t).Elem()
		p.parse(nv)
		v.Set(nv)
	case reflect.Slice:
		if p.has("nil") {
			v.Set(reflect.Zero(v.Type()))
			return
		}
		if !p.has("[") {
			panic("bad slice value")
		}
		sl := reflect.MakeSlice(v.Type(), 0, 0)
		if !p.has("]") {
			for {
				e := reflect.New(v.Type().Elem()).Elem()
				p.parse(e)
				sl = reflect.Append(sl, e)
				if p.has("]") {
					break
				}
				if !p.has(",") {
					panic("bad slice separator")
				}
			}
		}
		// len == cap: no hidden elements
		out := reflect.MakeSlice(v.Type(), sl.Len(), sl.Len())
		reflect.Copy(out, sl)
		v.Set(out)
	case reflect.Map:
		if p.has("nil") {
			v.Set(reflect.Zero(v.Type()))
			return
		}
		if !p.has("{") {
			panic("bad map value")
		}
		m := reflect.MakeMap(v.Type())
		if !p.has("}") {
			for {
				k := string(mustHex(p.run(isHexByte)))
				if !p.has("=") {
					panic("bad map entry")
				}
				e := reflect.New(v.Type().Elem()).Elem()
				p.parse(e)
				m.SetMapIndex(reflect.ValueOf(k).Convert(v.Type().Key()), e)
				if p.has("}") {
					break
				}
				if !p.has(",") {
					panic("bad map separator")
				}
			}
		}
		v.Set(m)
	case reflect.Ptr:
		if p.has("nil") {
			v.Set(reflect.Zero(v.Type()))
			return
		}
		if !p.has("&") {
			panic("bad pointer value")
		}
		nv := reflect.New(v.Type().Elem())
		p.parse(nv.Elem())
		v.Set(nv)
	case reflect.Struct:
		if !p.has("(") {
			panic("bad struct value")
		}
		for i := 0; i < v.NumField(); i++ {
			if i > 0 && !p.has(",") {
				panic("bad struct separator")
			}
			p.parse(v.Field(i))
		}
		if !p.has(")") {
			panic("bad struct end")
		}
	default:
		panic("unsupported kind in value")
	}
}

// UNewTarget: pointer to a new variable of type t holding the value init ("-" = zero).
func UNewTarget(t reflect.Type, init string) reflect.Value {
	p := reflect.New(t)
	if init != "-" {
		vp := &uvParser{s: init}
		vp.parse(p.Elem())
		if vp.i != len(init) {
			panic("trailing garbage in value")
		}
	}
	return p
}

// ---------------------------------------------------------------------------
// ops

func unfDepths(u *gotype.Unfolder) string {
	d := hookUnfDepths(u)
	ss := make([]string, len(d))
	for i, x := range d {
		ss[i] = strconv.Itoa(x)
	}
	return strings.Join(ss, ".")
}

// one Visitor call under recover
func unfEvent(v structform.ExtVisitor, tok string) (res string) {
	defer func() {
		if r := recover(); r != nil {
			res = "panic"
		}
	}()
	return ErrClass(PlayTok(v, tok))
}

func expandedLen(toks []string) int {
	n := 0
	for _, t := range toks {
		if len(t) > 0 && (t[0] == 'A' || t[0] == 'O') {
			n += len(ExpandTok(t))
		} else {
			n++
		}
	}
	return n
}

type unfResult struct {
	steps string
	final string
	alloc string
}

func unfRun(t reflect.Type, init, cache string, toks []string) (res unfResult, ok bool) {
	var target reflect.Value
	var to interface{} // nil: NewUnfolder(nil), no SetTarget (pseudo target "none")
	if t != nil {
		target = UNewTarget(t, init)
		to = target.Interface()
	}
	var m0, m1 runtime.MemStats
	runtime.ReadMemStats(&m0)
	u, err := gotype.NewUnfolder(to)
	if err != nil {
		return res, false
	}
	if cache != "-" {
		n, _ := strconv.Atoi(cache)
		u.EnableKeyCache(n)
	}
	v := structform.EnsureExtVisitor(u)
	var sb strings.Builder
	sb.WriteString(unfDepths(u))
	for _, tok := range toks {
		r := unfEvent(v, tok)
		sb.WriteByte('/')
		sb.WriteString(r)
		if r == "panic" {
			break
		}
		sb.WriteByte(':')
		sb.WriteString(unfDepths(u))
		if r != "ok" {
			break
		}
	}
	runtime.ReadMemStats(&m1)
	res.steps = sb.String()
	res.final = "-"
	if t != nil {
		res.final = UPrintVal(target.Elem())
	}
	res.alloc = "alloc=small"
	if m1.TotalAlloc-m0.TotalAlloc >= uint64(1<<20+256*expandedLen(toks)) {
		res.alloc = "alloc=BIG"
	}
	return res, true
}

// unf <type> <init|-> <cache n|-> <xevents>
//
//	<depths after SetTarget>/<res>:<depths>/...|<final value>|alloc=small|BIG[|<final value without key cache>]
//
// stops at the first event that does not return nil; "seterr" if NewUnfolder fails.
func opUnf(args []string) string {
	t, ok := UParseType(args[0])
	if !ok && args[0] != "none" {
		return "bad-type"
	}
	toks := Toks(args[3])
	res, ok := unfRun(t, args[1], args[2], toks)
	if !ok {
		return "seterr"
	}
	out := res.steps + "|" + res.final + "|" + res.alloc
	if args[2] != "-" {
		res2, _ := unfRun(t, args[1], "-", toks)
		out += "|" + res2.final
	}
	return out
}

// one document of unf-reuse on u: SetTarget(&fresh), the events (all, or the first k with
// an a<k>: marker), Reset() after an abandoned or failed document.
//
//	<depths after SetTarget>,<ok|abandoned|incomplete|err@i|panic@i>,<depths afterwards>,<target value>
func unfDoc(u *gotype.Unfolder, t reflect.Type, doc string) (string, bool) {
	abandon := -1
	if strings.HasPrefix(doc, "a") {
		k, rest := splitOnce(doc[1:], ':')
		abandon, _ = strconv.Atoi(k)
		doc = rest
	}
	toks := Toks(doc)
	target := reflect.New(t)
	if err := u.SetTarget(target.Interface()); err != nil {
		return "", false
	}
	dSet := unfDepths(u)
	v := structform.EnsureExtVisitor(u)
	status := "ok"
	for i, tok := range toks {
		if abandon >= 0 && i >= abandon {
			break
		}
		if r := unfEvent(v, tok); r != "ok" {
			status = r + "@" + strconv.Itoa(i)
			break
		}
	}
	if abandon >= 0 && status == "ok" {
		status = "abandoned"
	}
	if status == "ok" && !unfBalanced(toks) {
		status = "incomplete" // the producer stopped inside the document: it knows, and resets
	}
	if status != "ok" {
		u.Reset()
	}
	return dSet + "," + status + "," + unfDepths(u) + "," + UPrintVal(target.Elem()), true
}

// unfBalanced: at least one token and every container that was started is finished
func unfBalanced(toks []string) bool {
	d := 0
	for _, t := range toks {
		switch {
		case t == "]" || t == "}":
			d--
		case t[0] == '[' || t[0] == '{':
			d++
		}
	}
	return len(toks) > 0 && d == 0
}

// unf-reuse <type> <cache n|-> <doc;doc;...;probe>
//
//	<doc>;<doc>;...|<probe on the reused unfolder>|<probe on a fresh unfolder>
//
// each <doc> ends in ",same" / ",differs": the document's result on an unfolder of its own
func opUnfReuse(args []string) string {
	t, ok := UParseType(args[0])
	if !ok {
		return "bad-type"
	}
	mk := func() *gotype.Unfolder {
		u, _ := gotype.NewUnfolder(nil)
		if args[1] != "-" {
			n, _ := strconv.Atoi(args[1])
			u.EnableKeyCache(n)
		}
		return u
	}
	docs := strings.Split(args[2], ";")
	u := mk()
	var outs []string
	for _, d := range docs {
		o, ok := unfDoc(u, t, d)
		if !ok {
			return "seterr"
		}
		// every document also on an unfolder of its own: same result?
		if f, _ := unfDoc(mk(), t, d); f == o {
			o += ",same"
		} else {
			o += ",differs"
		}
		outs = append(outs, o)
	}
	fresh, _ := unfDoc(mk(), t, docs[len(docs)-1])
	fresh += ",same"
	n := len(outs)
	hist := strings.Join(outs[:n-1], ";")
	if hist == "" {
		hist = "-"
	}
	return hist + "|" + outs[n-1] + "|" + fresh
}

// unf-seq <type>,<type>,...: ONE unfolder, SetTarget(&zero value) of each type in turn (Reset
// in between): ok|err per type. The type registry of the unfolder survives from type to type.
func opUnfSeq(args []string) string {
	u, _ := gotype.NewUnfolder(nil)
	var out []string
	for _, tn := range strings.Split(args[0], ",") {
		t, ok := UParseType(tn)
		if !ok {
			return "bad-type"
		}
		out = append(out, ErrClass(u.SetTarget(reflect.New(t).Interface())))
		u.Reset()
	}
	return strings.Join(out, ",")
}

var _ = math.Float32bits

func init() {
	RegisterOp("unf", opUnf)
	RegisterOp("unf-reuse", opUnfReuse)
	RegisterOp("unf-type", opUnfType)
	RegisterOp("unf-seq", opUnfSeq)
}
