package sfh

import (
	"fmt"
	"math/big"
	"strings"
)

// extSizedTokens: typed arrays and typed maps of every kind with element COUNTS at the
// boundaries of the formats' length encodings (CBOR 23/24/25, 255/256/257; UBJSON 127/128,
// 255/256, 32767/32768; thorough: 65535/65536)
func extSizedTokens(r *Rand, tier string) []string {
	sizes := []int{22, 23, 24, 25, 127, 128, 129, 255, 256, 257}
	if tier == "thorough" {
		sizes = append(sizes, 32767, 32768, 65535, 65536)
	}
	kinds := []string{"i8", "i16", "i32", "i64", "i", "b", "u8", "u16", "u32", "u64", "u", "bool", "str", "f32", "f64"}
	var out []string
	// the four large counts only for a few kinds (each such op line is megabytes: the Lean driver
	// needs a minute for it)
	bigKinds := map[string]bool{"i8": true, "str": true, "f64": true, "bool": true, "u64": true}
	for _, k := range kinds {
		for _, n := range sizes {
			if n > 1000 && !bigKinds[k] || n > 40000 && k != "i8" && k != "str" {
				continue
			}
			elem := func(i int) string {
				switch k {
				case "bool":
					return []string{"T", "F"}[i%2]
				case "str":
					return []string{"61", "", "c3a9"}[i%3]
				case "f32":
					return "3fc00000"
				case "f64":
					return "3ff8000000000000"
				}
				nk := KindByName(k)
				if i == n-1 {
					return nk.Hi.String()
				}
				return fmt.Sprint(i % 100)
			}
			var es []string
			for i := 0; i < n; i++ {
				es = append(es, elem(i))
			}
			out = append(out, fmt.Sprintf("A%s:%d:%s", k, n, strings.Join(es, "/")))
			// (typed MAPS with more than one entry are not generated: the harness hands the
			// library a Go map, whose iteration order — and with it the bytes — is random)
		}
	}
	return out
}

func genExtSizes(f string) GenFn {
	return func(r *Rand, tier string, emit func(string)) {
		for _, x := range extSizedTokens(r, tier) {
			emit(fmt.Sprintf("ext %s %s - %s -", f, optsFor(r, f), x))
			emit(fmt.Sprintf("ext %s %s [-1:0,i:1 %s S:61,]", f, optsFor(r, f), x))
			emit(fmt.Sprintf("enc %s %s -1 [2:0,%s,S:61,]", f, optsFor(r, f), x))
			emit(fmt.Sprintf("rt %s %s {-1:0,K:61,%s,K:62,T,}", f, optsFor(r, f), x))
		}
	}
}

// genUnfExt: the Unfolder (which gets typed arrays / maps through EnsureExtVisitor's adapters)
// as consumer of every extended event, into generic and matching typed targets
func genUnfExt(r *Rand, tier string, emit func(string)) {
	toks := append(extTokens(r), extSizedTokens(r, "quick")[:0]...)
	for _, x := range toks {
		if strings.HasPrefix(x, "R:") {
			emit(fmt.Sprintf("unf any - - %s", x))
			emit(fmt.Sprintf("unf []any - - [-1:0,%s,]", x))
			continue
		}
		emit(fmt.Sprintf("unf any - - %s", x))
		emit(fmt.Sprintf("unf []any - - [-1:0,%s,i:1,]", x))
		emit(fmt.Sprintf("unf map:any - - {-1:0,K:61,%s,K:62,T,}", x))
		emit(fmt.Sprintf("unf @In2 - - {-1:0,K:71,[1:0,%s,],K:72,{1:0,K:6b,%s,},}", x, x))
	}
	// a few larger typed arrays of every kind into interface{} (element type must be kept)
	for _, x := range extSizedTokens(r, "quick") {
		if strings.Contains(x, ":24:") || strings.Contains(x, ":256:") {
			emit(fmt.Sprintf("unf any - - %s", x))
		}
	}
}

func init() {
	for _, f := range ModelledFormats {
		g := genExtSizes(f)
		RegisterGen("C10", onlyOp("ext", g))
		RegisterGen("C07", onlyOp("enc", g))
		RegisterGen("C01", onlyOp("rt", g))
	}
	for _, f := range ModelledFormats {
		RegisterGen("C10", genExtMixed(f, true))
		RegisterGen("C07", genExtMixed(f, false))
	}
	RegisterGen("C10", genUnfExt)
	RegisterGen("C13", genUnfExt)
}

// genExtMixed: typed integer arrays whose elements mix the boundary values of the narrower wire
// widths (an encoder choosing one element type for the whole array must choose one that holds
// every element: -1 next to 200, 255 next to -129, 65535 next to -1, …).
func genExtMixed(f string, asExt bool) GenFn {
	return func(r *Rand, tier string, emit func(string)) {
		bs := []string{"-9223372036854775808", "-4294967297", "-2147483649", "-2147483648", "-65537", "-32769", "-32768", "-129", "-128", "-1",
			"0", "127", "128", "255", "256", "32767", "32768", "65535", "65536", "2147483647", "2147483648", "4294967295", "4294967296",
			"9223372036854775807", "9223372036854775808", "18446744073709551615"}
		for _, k := range []string{"i8", "i16", "i32", "i64", "i", "b", "u8", "u16", "u32", "u64", "u"} {
			nk := KindByName(k)
			var fit []string
			for _, b := range bs {
				v, _ := new(big.Int).SetString(b, 10)
				if nk.Fits(v) {
					fit = append(fit, b)
				}
			}
			for _, a := range fit {
				for _, b := range fit {
					x := fmt.Sprintf("A%s:2:%s/%s", k, a, b)
					if r.Intn(4) == 0 {
						x = fmt.Sprintf("A%s:3:%s/%s/%s", k, a, b, Pick(r, fit))
					}
					pre, suf := "-", "-"
					if r.Intn(3) == 0 {
						pre, suf = "{-1:0,K:61", "K:62,T,}"
					}
					if asExt {
						emit(fmt.Sprintf("ext %s %s %s %s %s", f, optsFor(r, f), pre, x, suf))
					} else if pre == "-" {
						emit(fmt.Sprintf("enc %s %s -1 %s", f, optsFor(r, f), x))
					} else {
						emit(fmt.Sprintf("enc %s %s -1 %s,%s,%s", f, optsFor(r, f), pre, x, suf))
					}
				}
			}
		}
	}
}

// genUnfExtInit: extended events (which ANNOUNCE their length) into targets that already hold
// something — fewer, as many and more entries than announced: the announcement is a hint for
// pre-sizing, never a reason to drop what the target holds (maps are merged into, slices
// overwritten from the start)
func genUnfExtInit(r *Rand, tier string, emit func(string)) {
	mapInits := []string{"{}", "{6b=<bool>true}", "{6b=<bool>true,61=<int>9}", "{61=<int>9,62=<int>8,63=<int>7}"}
	for _, x := range []string{"Ostr:2:61=76/62=77", "Ou16:2:61=1/62=2", "Oi8:1:7a=-1", "Of64:2:61=3ff8000000000000/7a=4000000000000000", "Obool:3:61=T/62=F/63=T",
		"Oi:0:", "{2:0,K:61,i:1,K:62,i:2,}", "{-1:0,K:61,i:1,K:62,i:2,}", "{1:0,K:7a,S:7a,}"} {
		for _, in := range mapInits {
			emit(fmt.Sprintf("unf map:any %s - %s", in, x))
			emit(fmt.Sprintf("unf any <map:any>%s - %s", in, x))
			emit(fmt.Sprintf("unf @In2 (0,nil,%s) - {-1:0,K:72,%s,}", in, x))
		}
	}
	arrInits := []string{"[]", "[<int>1]", "[<int>1,<int>2,<int>3,<int>4]"}
	for _, x := range []string{"Ai:3:1/2/3", "Au8:2:200/201", "Astr:1:61", "Abool:0:", "Af32:2:3fc00000/40000000", "[3:0,i:1,N,T,]", "[-1:0,i:1,N,]"} {
		for _, in := range arrInits {
			emit(fmt.Sprintf("unf []any %s - %s", in, x))
			emit(fmt.Sprintf("unf any <[]any>%s - %s", in, x))
		}
	}
	for _, c := range [][3]string{{"map:int", "{61=9}", "Oi:2:62=1/63=2"}, {"map:string", "{61=s:78}", "Ostr:2:62=76/63=77"}, {"map:uint16", "{61=9}", "Ou16:2:62=1/63=2"},
		{"[]int", "[9,8,7,6]", "Ai:2:1/2"}, {"[]string", "[s:78]", "Astr:3:61/62/63"}, {"[]uint8", "[9]", "Au8:2:1/2"}} {
		emit(fmt.Sprintf("unf %s %s - %s", c[0], c[1], c[2]))
	}
}

func init() {
	RegisterGen("C10", genUnfExtInit)
	RegisterGen("C13", genUnfExtInit)
}
