package sfh

// gen_fold.go — generators for the gotype fold ops (ops_fold.go).
//   XFOLD : everything below (development sweep)
//   C12   : everything without fault injection
//   C09   : the un-faulted folds again (the WF oracle runs on every fold observation)
//   C16   : fault index k exhaustive for small values
// Type terms and values are written in the grammar of gotypes.go.

import (
	"fmt"
	"math/big"
	"reflect"
	"strings"
)

// ---------------------------------------------------------------------------
// random values of a reflect.Type

type foldGen struct {
	r     *Rand
	depth int // type depth bound
}

func (g *foldGen) intOf(k reflect.Kind) string {
	names := map[reflect.Kind]string{
		reflect.Int: "i", reflect.Int8: "i8", reflect.Int16: "i16", reflect.Int32: "i32", reflect.Int64: "i64",
		reflect.Uint: "u", reflect.Uint8: "u8", reflect.Uint16: "u16", reflect.Uint32: "u32", reflect.Uint64: "u64", reflect.Uintptr: "u64",
	}
	nk := KindByName(names[k])
	if g.r.P(30) {
		return Pick(g.r, []*big.Int{nk.Lo, nk.Hi, big.NewInt(0), big.NewInt(1)}).String()
	}
	return g.r.IntIn(nk).String()
}

func (g *foldGen) size() int {
	return Pick(g.r, []int{0, 1, 1, 2, 3, 3, 4})
}

// Value: a random value token of type t; d bounds the nesting still allowed.
func (g *foldGen) Value(t reflect.Type, d int) string {
	r := g.r
	switch t.Kind() {
	case reflect.Bool:
		if r.Bool() {
			return "true"
		}
		return "false"
	case reflect.Int, reflect.Int8, reflect.Int16, reflect.Int32, reflect.Int64,
		reflect.Uint, reflect.Uint8, reflect.Uint16, reflect.Uint32, reflect.Uint64, reflect.Uintptr:
		return g.intOf(t.Kind())
	case reflect.Float32:
		return fmt.Sprintf("f:%08x", r.F32Bits(false))
	case reflect.Float64:
		return fmt.Sprintf("f:%016x", r.F64Bits(false))
	case reflect.Complex64:
		return fmt.Sprintf("c:%08x%08x", r.F32Bits(true), r.F32Bits(true))
	case reflect.Complex128:
		return fmt.Sprintf("c:%016x%016x", r.F64Bits(true), r.F64Bits(true))
	case reflect.String:
		return "s:" + Hex(r.Str(20))
	case reflect.Slice:
		if r.P(15) {
			return "nil"
		}
		n := g.size()
		if d <= 0 {
			n = 0
		}
		es := make([]string, n)
		for i := range es {
			es[i] = g.Value(t.Elem(), d-1)
		}
		return "[" + strings.Join(es, ",") + "]"
	case reflect.Array:
		es := make([]string, t.Len())
		for i := range es {
			es[i] = g.Value(t.Elem(), d-1)
		}
		return "[" + strings.Join(es, ",") + "]"
	case reflect.Map:
		if r.P(15) {
			return "nil"
		}
		n := g.size()
		if d <= 0 {
			n = 0
		}
		seen := map[string]bool{}
		var es []string
		for i := 0; i < n; i++ {
			var k string
			if t.Key().Kind() == reflect.String {
				k = "s:" + Hex(r.Key())
			} else {
				k = g.Value(t.Key(), 0)
			}
			if seen[k] {
				continue
			}
			seen[k] = true
			es = append(es, k+"="+g.Value(t.Elem(), d-1))
		}
		return "{" + strings.Join(es, ",") + "}"
	case reflect.Ptr:
		if d <= 0 || r.P(25) {
			return "nil"
		}
		return "&" + g.Value(t.Elem(), d-1)
	case reflect.Interface:
		if d <= 0 || r.P(20) {
			return "nil"
		}
		dt := g.DynType(d - 1)
		return "<" + dt + ">" + g.Value(ParseType(dt), d-1)
	case reflect.Struct:
		es := make([]string, t.NumField())
		for i := range es {
			es[i] = g.Value(t.Field(i).Type, d-1)
		}
		return "(" + strings.Join(es, ",") + ")"
	case reflect.Chan, reflect.Func:
		return "nil"
	}
	panic("gen: kind " + t.Kind().String())
}

// ---------------------------------------------------------------------------
// random type terms

var scalarTypes = []string{"bool", "string", "int", "int8", "int16", "int32", "int64", "uint", "uint8", "uint16", "uint32", "uint64", "float32", "float64"}
var unsupportedTypes = []string{"chan:int", "func", "complex64", "complex128", "uintptr", "map[int]string", "map[bool]int"}

// menagerie members a random type may mention (recursive N only rarely: every fold of it
// costs a child process)
var menagerieCommon = []string{"FV", "FP", "FS", "FInts", "FMap", "ZV", "ZP", "ZInt", "ZStr", "TimeLike", "NBool", "NStr", "NInt", "NU8", "NF32",
	"NInts", "NBytes", "NStrs", "NAnys", "NArr", "NMap", "NMapAny", "NPtr", "Unexp", "Inner", "EmbInline", "EmbPlain", "EmbPtr",
	"EmbPtrPlain", "EmbUnexp", "EmbZ", "EmbF", "UF", "UO", "UD", "Ifc", "Mixed", "NI",
	"ZInts", "ZMapP", "ZArr", "N", "Tree", "MA", "MB", "NIn", "NII", "NO", "L", "MM"}

var fieldTags = []string{"", "", "", "", "", "nm", "x", ",omitempty", ",omitempty", "nm,omitempty", ",omit", "-", ",inline", ",squash",
	"nm,inline", ",inline,omitempty", " nm , omitempty ", ",foo", "-,omitempty", ",omitempty,omitempty", "dup", "dup", "ö", ",omit,inline"}

var oddFieldNames = []string{"b", "_x", "Ünï", "ünï", "X_y", "URL", "ID2"}

func (g *foldGen) Type(d int) string {
	r := g.r
	if d <= 0 {
		if r.P(15) {
			return "any"
		}
		return Pick(r, scalarTypes)
	}
	switch c := r.Intn(100); {
	case c < 25:
		return Pick(r, scalarTypes)
	case c < 37:
		return "[]" + g.Type(d-1)
	case c < 41:
		return fmt.Sprintf("[%d]", r.Intn(4)) + g.Type(d-1)
	case c < 53:
		k := "string"
		if r.P(8) {
			k = Pick(r, []string{"@NStr", "int", "bool", "uint8", "int64"})
		}
		return "map[" + k + "]" + g.Type(d-1)
	case c < 63:
		return strings.Repeat("*", 1+r.Intn(3)) + g.Type(d-1)
	case c < 83:
		return g.StructType(d)
	case c < 90:
		return "any"
	case c < 98:
		if r.P(3) {
			return "@N"
		}
		return "@" + Pick(r, menagerieCommon)
	default:
		return Pick(r, unsupportedTypes)
	}
}

func (g *foldGen) StructType(d int) string {
	r := g.r
	n := r.Intn(7)
	fs := make([]string, n)
	for i := range fs {
		name := fmt.Sprintf("F%d", i)
		if r.P(8) {
			name = Pick(r, oddFieldNames) + fmt.Sprint(i)
		}
		ft := g.Type(d - 1)
		tag := Pick(r, fieldTags)
		if strings.Contains(tag, "inline") || strings.Contains(tag, "squash") {
			// mostly on something that can be inlined
			if r.P(80) {
				switch c := r.Intn(16); {
				case c < 3 && d > 0:
					ft = g.StructType(d - 1)
				case c < 5 && d > 0:
					ft = "*" + g.StructType(d-1)
				case c < 6 && d > 0:
					ft = "**" + g.StructType(d-1)
				case c < 8:
					ft = "map[string]" + g.Type(d-2)
				case c < 11:
					ft = "any"
				default:
					ft = Pick(r, []string{"@Inner", "*@Inner", "@FV", "@FP", "*@FP", "@NMap", "@UO", "map[string]int", "map[string]any", "struct{X:int;Y:string`,omitempty`}"})
				}
			}
		}
		fs[i] = name + ":" + ft
		if tag != "" {
			fs[i] += "`" + escapeTag(tag) + "`"
		}
	}
	return "struct{" + strings.Join(fs, ";") + "}"
}

// DynType: a type an interface value can hold (never an interface itself)
func (g *foldGen) DynType(d int) string {
	for {
		t := g.Type(d)
		if t != "any" {
			return t
		}
	}
}

// ---------------------------------------------------------------------------
// generators

func foldLine(t, v string, k int) string { return fmt.Sprintf("fold %s %s %d", t, v, k) }

// every menagerie member: descriptor self-test, zero value, random values
func genFoldMenagerie(r *Rand, tier string, emit func(string)) {
	g := &foldGen{r: r}
	for _, m := range Menagerie {
		for _, t := range []string{"@" + m.Name, "*@" + m.Name, "**@" + m.Name, "[]@" + m.Name, "map[string]@" + m.Name,
			"struct{F:@" + m.Name + "}", "struct{F:*@" + m.Name + "`,omitempty`;G:int}", "struct{A:int;F:@" + m.Name + "`,inline`}",
			"struct{F:any`,omitempty`}", "[]any"} {
			rt := ParseType(t)
			emit("typeinfo " + t)
			n := tierN(tier, 3, 12)
			for i := 0; i < n; i++ {
				d := 4
				if cyclicMenagerie[m.Name] {
					d = 6
				}
				var v string
				switch t {
				case "struct{F:any`,omitempty`}":
					v = "(<@" + m.Name + ">" + g.Value(m.Type, d) + ")"
				case "[]any":
					v = "[<@" + m.Name + ">" + g.Value(m.Type, d) + ",<*@" + m.Name + ">" + g.Value(reflect.PtrTo(m.Type), d) + "]"
				default:
					v = g.Value(rt, d)
				}
				emit("goval " + t + " " + v)
				emit(foldLine(t, v, -1))
			}
		}
	}
}

type kindCase struct {
	typ  string
	vals []string
}

// ~60 field kinds with values {zero, empty, non-empty, nil} as applicable
var foldKinds = []kindCase{
	{"bool", []string{"false", "true"}},
	{"int", []string{"0", "5"}},
	{"uint8", []string{"0", "255"}},
	{"int64", []string{"0", "-9223372036854775808"}},
	{"float64", []string{"f:0000000000000000", "f:3ff8000000000000"}},
	{"float32", []string{"f:00000000", "f:7f800001"}},
	{"string", []string{"s:", "s:6869"}},
	{"[]int", []string{"nil", "[]", "[1,2]"}},
	{"[]string", []string{"nil", "[]", "[s:,s:61]"}},
	{"[]uint8", []string{"nil", "[]", "[1,2]"}},
	{"[]any", []string{"nil", "[]", "[<int>1,nil]"}},
	{"[]struct{A:int}", []string{"nil", "[]", "[(1)]"}},
	{"[2]int", []string{"[0,0]", "[1,2]"}},
	{"[0]int", []string{"[]"}},
	{"map[string]int", []string{"nil", "{}", "{s:6b=1}"}},
	{"map[string]string", []string{"nil", "{}", "{s:6b=s:76}"}},
	{"map[string]any", []string{"nil", "{}", "{s:6b=<int>1}"}},
	{"map[string]struct{A:int}", []string{"nil", "{}", "{s:6b=(1)}"}},
	{"map[string]*int", []string{"nil", "{}", "{s:6b=nil}", "{s:6b=&1}"}},
	{"map[string][]int", []string{"nil", "{}", "{s:6b=[1]}"}},
	{"map[@NStr]int", []string{"nil", "{s:6b=1}"}},
	{"*int", []string{"nil", "&0", "&5"}},
	{"*string", []string{"nil", "&s:", "&s:61"}},
	{"**string", []string{"nil", "&nil", "&&s:", "&&s:61"}},
	{"*struct{A:int}", []string{"nil", "&(0)", "&(1)"}},
	{"**struct{A:int}", []string{"nil", "&nil", "&&(1)"}},
	{"struct{A:int;B:string`,omitempty`}", []string{"(0,s:)", "(1,s:78)"}},
	{"struct{}", []string{"()"}},
	{"*map[string]int", []string{"nil", "&nil", "&{}", "&{s:6b=1}"}},
	{"*[]int", []string{"nil", "&nil", "&[]", "&[1]"}},
	{"*any", []string{"nil", "&nil", "&<int>1", "&<string>s:"}},
	{"any", []string{"nil", "<int>0", "<string>s:", "<string>s:61", "<[]int>[]", "<[]int>nil", "<map[string]int>{s:6b=1}", "<map[string]any>{}",
		"<struct{A:int}>(1)", "<*struct{A:int}>&(1)", "<*struct{A:int}>nil", "<*int>nil", "<*string>&s:", "<@ZV>(0)", "<@ZV>(1)", "<@ZP>(0)", "<@ZP>(1)", "<*@ZP>&(1)",
		"<@FV>(1,s:78)", "<*@FV>nil", "<@FP>(1)", "<@FS>3", "<@UO>(1,s:65)", "<[]any>[<int>1]", "<chan:int>nil", "<map[int]int>{}"}},
	{"@ZV", []string{"(0)", "(1)"}},
	{"*@ZV", []string{"nil", "&(0)", "&(1)"}},
	{"@ZP", []string{"(0)", "(1)"}},
	{"*@ZP", []string{"nil", "&(0)", "&(1)"}},
	{"@ZInt", []string{"0", "1"}},
	{"@ZStr", []string{"s:", "s:7a65726f", "s:61"}},
	{"@TimeLike", []string{"(0,0)", "(1,2)"}},
	{"@ZInts", []string{"nil", "[]", "[0,1]", "[1,0]"}},
	{"@ZMapP", []string{"nil", "{}", "{s:6b=1}", "{s:6b=1,s:6c=2}"}},
	{"*@ZMapP", []string{"nil", "&nil", "&{s:6b=1}", "&{s:6b=1,s:6c=2}"}},
	{"@ZArr", []string{"[0,0]", "[0,1]"}},
	{"@Tree", []string{"(1,nil,nil)", "(1,[(2,nil,nil)],{s:6b=&(3,nil,nil)})"}},
	{"@NIn", []string{"(1,nil)", "(1,&(2,nil))"}},
	{"@NO", []string{"(1,nil)", "(1,&(2,nil))"}},
	{"@EmbZ", []string{"((0),1)", "((1),1)"}},
	{"@FV", []string{"(0,s:)", "(1,s:78)"}},
	{"*@FV", []string{"nil", "&(1,s:78)"}},
	{"@FP", []string{"(1)"}},
	{"*@FP", []string{"nil", "&(1)"}},
	{"**@FP", []string{"nil", "&nil", "&&(1)"}},
	{"@FS", []string{"0", "3"}},
	{"@FInts", []string{"nil", "[]", "[1,2,3]"}},
	{"*@FInts", []string{"nil", "&[1]"}},
	{"@FMap", []string{"nil", "{}", "{s:6b=1,s:6c=2}"}},
	{"*@FMap", []string{"nil", "&{s:6b=1}"}},
	{"@FOpen", []string{"(1)"}},
	{"@EmbF", []string{"((1,s:78),2)"}},
	{"@UF", []string{"(1)"}},
	{"*@UF", []string{"nil", "&(1)"}},
	{"@UO", []string{"(1,s:65)"}},
	{"*@UO", []string{"nil", "&(1,s:65)"}},
	{"@UD", []string{"0", "5"}},
	{"@NStr", []string{"s:", "s:61"}},
	{"@NInt", []string{"0", "7"}},
	{"@NF32", []string{"f:00000000", "f:7fa00000"}},
	{"@NInts", []string{"nil", "[]", "[1]"}},
	{"@NBytes", []string{"nil", "[1,2]"}},
	{"@NArr", []string{"[0,0]", "[1,2]"}},
	{"@NMap", []string{"nil", "{}", "{s:6b=1}"}},
	{"@NMapAny", []string{"nil", "{s:6b=<int>1}"}},
	{"@NPtr", []string{"nil", "&1"}},
	{"@Inner", []string{"(0,s:)", "(1,s:79)"}},
	{"*@Inner", []string{"nil", "&(1,s:79)"}},
	{"@EmbInline", []string{"((1,s:79),2)"}},
	{"@EmbPtr", []string{"(nil,2)", "(&(1,s:79),2)"}},
	{"@Unexp", []string{"(1,s:62,true,4,s:c3bc)"}},
	{"@Ifc", []string{"(nil,nil,nil)", "(<int>1,<string>s:,<map[string]int>{s:6b=1})"}},
	{"@NI", []string{"(1,nil)", "(1,<@NI>(2,nil))"}},
	{"@N", []string{"(1,nil)"}},
	{"map[int]int", []string{"nil", "{1=2}"}},
	{"chan:int", []string{"nil"}},
	{"func", []string{"nil"}},
	{"complex128", []string{"c:00000000000000000000000000000000"}},
	{"uintptr", []string{"0"}},
}

// all 2^4 tag-option sets {name given, omit or "-", omitempty, inline}; the "omit" bit in
// both spellings, the inline bit alternating between inline and squash
func allTags() []string {
	var tags []string
	for _, name := range []string{"", "nm"} {
		for _, drop := range []string{"", "omit", "-"} {
			for _, oe := range []bool{false, true} {
				for _, inl := range []bool{false, true} {
					var opts []string
					nm := name
					if drop == "-" {
						if name != "" {
							continue // "-" IS the name
						}
						nm = "-"
					}
					if drop == "omit" {
						opts = append(opts, "omit")
					}
					if oe {
						opts = append(opts, "omitempty")
					}
					if inl {
						if len(tags)%2 == 0 {
							opts = append(opts, "inline")
						} else {
							opts = append(opts, "squash")
						}
					}
					tags = append(tags, strings.Join(append([]string{nm}, opts...), ","))
				}
			}
		}
	}
	return tags
}

func tagged(field, typ, tag string) string {
	s := field + ":" + typ
	if tag != "" {
		s += "`" + escapeTag(tag) + "`"
	}
	return s
}

// exhaustive: tags x kinds x values, single-field and three-field structs
func foldTagCases(emit func(t, v string)) {
	for _, tag := range allTags() {
		for _, kc := range foldKinds {
			for _, v := range kc.vals {
				emit("struct{"+tagged("F0", kc.typ, tag)+"}", "("+v+")")
				emit("struct{A:string;"+tagged("F0", kc.typ, tag)+";Z:int}", "(s:61,"+v+",7)")
			}
		}
	}
}

func genFoldTags(r *Rand, tier string, emit func(string)) {
	foldTagCases(func(t, v string) { emit(foldLine(t, v, -1)) })
	// the kinds by themselves, behind pointers, in containers and in interfaces
	for _, kc := range foldKinds {
		for _, v := range kc.vals {
			emit(foldLine(kc.typ, v, -1))
			emit(foldLine("*"+kc.typ, "&"+v, -1))
			emit(foldLine("[]"+kc.typ, "["+v+","+v+"]", -1))
			emit(foldLine("map[string]"+kc.typ, "{s:6b="+v+"}", -1))
			emit(foldLine("struct{F:"+kc.typ+"}", "("+v+")", -1))
			if kc.typ != "any" {
				emit(foldLine("any", "<"+kc.typ+">"+v, -1))
				emit(foldLine("[]any", "[<"+kc.typ+">"+v+"]", -1))
				emit(foldLine("map[string]any", "{s:6b=<"+kc.typ+">"+v+"}", -1))
			}
		}
	}
}

var intKinds = []struct{ typ, kind string }{
	{"int", "i"}, {"int8", "i8"}, {"int16", "i16"}, {"int32", "i32"}, {"int64", "i64"},
	{"uint", "u"}, {"uint8", "u8"}, {"uint16", "u16"}, {"uint32", "u32"}, {"uint64", "u64"},
}

// positions a scalar is folded at: top level, field, omitempty field, pointer, slice, array,
// map element, inline map element, interface, []any, map[string]any
func scalarPositions(t, v string, emit func(string)) {
	emit(foldLine(t, v, -1))
	emit(foldLine("struct{F:"+t+"}", "("+v+")", -1))
	emit(foldLine("struct{F:"+t+"`,omitempty`}", "("+v+")", -1))
	emit(foldLine("struct{F:*"+t+"`,omitempty`}", "(&"+v+")", -1))
	emit(foldLine("**"+t, "&&"+v, -1))
	emit(foldLine("[]"+t, "["+v+"]", -1))
	emit(foldLine("[1]"+t, "["+v+"]", -1))
	emit(foldLine("struct{F:[]"+t+"}", "(["+v+","+v+"])", -1))
	emit(foldLine("map[string]"+t, "{s:6b="+v+"}", -1))
	emit(foldLine("struct{F:map[string]"+t+"}", "({s:6b="+v+"})", -1))
	emit(foldLine("struct{F:map[string]"+t+"`,inline`}", "({s:6b="+v+"})", -1))
	emit(foldLine("struct{F:any`,inline`}", "(<map[string]"+t+">{s:6b="+v+"})", -1))
	emit(foldLine("struct{F:any`,inline`}", "(<struct{G:[]"+t+"}>(["+v+"]))", -1))
	emit(foldLine("any", "<"+t+">"+v, -1))
	emit(foldLine("struct{F:any}", "(<"+t+">"+v+")", -1))
	emit(foldLine("[]any", "[<"+t+">"+v+",<[]"+t+">["+v+"],<map[string]"+t+">{s:6b="+v+"}]", -1))
	emit(foldLine("map[string]any", "{s:6b=<"+t+">"+v+"}", -1))
}

func genFoldScalars(r *Rand, tier string, emit func(string)) {
	for _, ik := range intKinds {
		k := KindByName(ik.kind)
		one := big.NewInt(1)
		for _, v := range []*big.Int{k.Lo, new(big.Int).Add(k.Lo, one), big.NewInt(0), one, new(big.Int).Sub(k.Hi, one), k.Hi} {
			if k.Fits(v) {
				scalarPositions(ik.typ, v.String(), emit)
			}
		}
	}
	for _, b := range f64Special {
		scalarPositions("float64", fmt.Sprintf("f:%016x", b), emit)
	}
	for _, b := range f32Special {
		scalarPositions("float32", fmt.Sprintf("f:%08x", b), emit)
	}
	scalarPositions("bool", "true", emit)
	scalarPositions("bool", "false", emit)
	for _, s := range strSpecial {
		scalarPositions("string", "s:"+Hex(s), emit)
		// as a key
		emit(foldLine("map[string]int", "{s:"+Hex(s)+"=1}", -1))
		emit(foldLine("map[string]any", "{s:"+Hex(s)+"=nil}", -1))
		emit(foldLine("struct{F:map[string]struct{}`,inline`}", "({s:"+Hex(s)+"=()})", -1))
	}
}

var containerElems = []kindCase{
	{"bool", []string{"true", "false", "true"}},
	{"int", []string{"1", "-2", "3"}},
	{"int8", []string{"1", "-128", "127"}},
	{"uint8", []string{"1", "0", "255"}},
	{"uint64", []string{"1", "18446744073709551615", "3"}},
	{"float32", []string{"f:3f800000", "f:7fc00000", "f:80000000"}},
	{"float64", []string{"f:3ff0000000000000", "f:7ff0000000000000", "f:0000000000000001"}},
	{"string", []string{"s:", "s:61", "s:ff"}},
	{"any", []string{"nil", "<int>1", "<[]int>[1]"}},
	{"*int", []string{"nil", "&1", "&2"}},
	{"[]int", []string{"nil", "[]", "[1]"}},
	{"struct{A:int;B:string`,omitempty`}", []string{"(1,s:)", "(2,s:78)", "(3,s:)"}},
	{"map[string]int", []string{"nil", "{}", "{s:61=1}"}},
	{"@NInt", []string{"1", "2", "3"}},
	{"@FV", []string{"(1,s:)", "(2,s:78)", "(3,s:79)"}},
	{"@ZP", []string{"(0)", "(1)", "(2)"}},
}

// nil vs empty; 0/1/3 entries; maps and slices at top level, as field, inline, in interfaces
func genFoldContainers(r *Rand, tier string, emit func(string)) {
	keys := []string{"s:61", "s:62", "s:"}
	for _, kc := range containerElems {
		var sl, mp []string
		sl = append(sl, "nil", "[]")
		mp = append(mp, "nil", "{}")
		for _, n := range []int{1, 3} {
			sl = append(sl, "["+strings.Join(kc.vals[:n], ",")+"]")
			var es []string
			for i := 0; i < n; i++ {
				es = append(es, keys[i]+"="+kc.vals[i])
			}
			mp = append(mp, "{"+strings.Join(es, ",")+"}")
		}
		for _, v := range sl {
			st := "[]" + kc.typ
			emit(foldLine(st, v, -1))
			emit(foldLine("struct{F:"+st+"}", "("+v+")", -1))
			emit(foldLine("struct{F:"+st+"`,omitempty`;G:int}", "("+v+",1)", -1))
			emit(foldLine("any", "<"+st+">"+v, -1))
			emit(foldLine("*"+st, "&"+v, -1))
		}
		for _, v := range mp {
			mt := "map[string]" + kc.typ
			emit(foldLine(mt, v, -1))
			emit(foldLine("struct{F:"+mt+"}", "("+v+")", -1))
			emit(foldLine("struct{F:"+mt+"`,omitempty`;G:int}", "("+v+",1)", -1))
			emit(foldLine("struct{A:int;F:"+mt+"`,inline`;G:int}", "(0,"+v+",1)", -1))
			emit(foldLine("struct{A:int;F:*"+mt+"`,inline`;G:int}", "(0,&"+v+",1)", -1))
			emit(foldLine("struct{A:int;F:any`,inline`;G:int}", "(0,<"+mt+">"+v+",1)", -1))
			emit(foldLine("any", "<"+mt+">"+v, -1))
			emit(foldLine("[]"+mt, "["+v+","+v+"]", -1))
		}
		arr := "[3]" + kc.typ
		emit(foldLine(arr, "["+strings.Join(kc.vals, ",")+"]", -1))
		emit(foldLine("struct{F:"+arr+"`,omitempty`}", "(["+strings.Join(kc.vals, ",")+"])", -1))
	}
}

// hand-written shapes: nested inline, inline next to ordinary fields, duplicate keys,
// unsupported types, tag syntax, field names
var foldShapes = [][2]string{
	// nested inline
	{"struct{A:int;I:struct{B:int;J:struct{C:int;D:string`,omitempty`}`,inline`}`,inline`;Z:int}", "(1,(2,(3,s:)),4)"},
	{"struct{A:int;I:*struct{B:int;J:**struct{C:int}`,inline`}`,inline`;Z:int}", "(1,&(2,&&(3)),4)"},
	{"struct{A:int;I:*struct{B:int;J:**struct{C:int}`,inline`}`,inline`;Z:int}", "(1,&(2,&nil),4)"},
	{"struct{A:int;I:*struct{B:int;J:**struct{C:int}`,inline`}`,inline`;Z:int}", "(1,nil,4)"},
	{"struct{I:struct{M:map[string]int`,inline`;N:map[string]string`,inline`}`,inline`}", "(({s:61=1,s:62=2},{s:63=s:78}))"},
	{"struct{I:struct{M:map[string]int`,inline`}`,inline`;M:map[string]int`,inline`}", "(({s:61=1}),{s:61=2})"},
	{"struct{A:any`,inline`;B:any`,inline`}", "(<map[string]int>{s:61=1},<struct{X:int}>(2))"},
	{"struct{A:any`,inline`;B:any`,inline`}", "(nil,<*struct{X:int}>&(2))"},
	{"struct{A:any`,inline`}", "(<*struct{X:int}>nil)"},
	{"struct{A:any`,inline`}", "(<int>1)"},
	{"struct{A:any`,inline`}", "(<[]int>[1])"},
	{"struct{A:any`,inline`}", "(<[]int>[])"},
	{"struct{A:any`,inline`}", "(<string>s:61)"},
	{"struct{A:any`,inline`}", "(<map[string][]int>{s:61=[1,2]})"},
	{"struct{A:any`,inline`}", "(<map[string]map[string]int>{s:61={s:62=1}})"},
	{"struct{A:any`,inline`}", "(<@FV>(1,s:78))"},
	{"struct{A:any`,inline`}", "(<*@FV>&(1,s:78))"},
	{"struct{A:any`,inline`}", "(<@FP>(1))"},
	{"struct{A:any`,inline`}", "(<*@FP>&(1))"},
	{"struct{A:any`,inline`}", "(<*@FP>nil)"},
	{"struct{A:any`,inline`}", "(<@FS>3)"},
	{"struct{A:any`,inline`}", "(<@FOpen>(1))"},
	{"struct{A:any`,inline`}", "(<@UO>(1,s:65))"},
	{"struct{A:any`,inline`}", "(<@UF>(1))"},
	{"struct{A:any`,inline`}", "(<@EmbInline>((1,s:79),2))"},
	{"struct{A:any`,inline`}", "(<struct{F:@FV`,inline`;G:@FP`,inline`}>((1,s:78),(2)))"},
	{"struct{A:@FV`,inline`;B:@FV`,inline`;C:*@FV`,inline`}", "((1,s:78),(2,s:79),&(3,s:7a))"},
	{"struct{A:@FV`,inline`;B:@FV`,inline`;C:*@FV`,inline`}", "((1,s:78),(2,s:79),nil)"},
	{"struct{A:@FP`,inline`;B:*@FP`,inline`;C:**@FP`,inline`}", "((1),&(2),&&(3))"},
	{"struct{A:@FP`,inline`;B:*@FP`,inline`;C:**@FP`,inline`}", "((1),nil,&nil)"},
	{"struct{A:@FS`,inline`}", "(3)"},
	{"struct{A:@FOpen`,inline`;B:int}", "((1),2)"},
	{"struct{A:@EmbF`,inline`}", "(((1,s:78),2))"},
	{"struct{A:@UO`,inline`;B:*@UO`,inline`}", "((1,s:65),&(2,s:66))"},
	{"struct{A:@UF`,inline`}", "((1))"},
	{"struct{A:@UD`,inline`}", "(5)"},
	// an inline interface field inside the value of another inline interface field
	{"struct{A:any`,inline`}", "(<struct{B:any`,inline`}>(<map[string]int>{s:6b=1}))"},
	{"struct{A:any`,inline`}", "(<struct{B:any`,inline`}>(<map[string]int>{}))"},
	{"struct{A:any`,inline`}", "(<struct{B:any`,inline`}>(nil))"},
	{"struct{A:any`,inline`}", "(<struct{X:int;B:any`,inline`;Y:int}>(1,<struct{}>(),2))"},
	{"struct{A:any`,inline`}", "(<struct{B:any`,inline`;Y:int}>(<map[string]int>{},2))"},
	{"struct{A:any`,inline`;Z:int}", "(<struct{S:struct{B:any`,inline`}}>((<map[string]int>{s:6b=1})),1)"},
	{"struct{A:any`,inline`;Z:int}", "(<map[string]any>{s:6b=<struct{B:any`,inline`}>(<map[string]int>{s:6b=1})},1)"},
	{"[]struct{A:any`,inline`}", "[(<map[string]int>{s:6b=1}),(<map[string]int>{s:6c=2})]"},
	{"struct{A:*any`,inline`}", "(&<struct{B:**any`,inline`}>(&&<map[string]int>{s:6b=1}))"},
	{"struct{A:*any`,inline`}", "(&<struct{B:**any`,inline`}>(&nil))"},
	{"struct{A:*any`,inline`;Z:int}", "(&<map[string]int>{s:6b=1},2)"},
	{"struct{A:*any`,inline`;Z:int}", "(&nil,2)"},
	{"struct{A:*any`,inline`;Z:int}", "(nil,2)"},
	// duplicate resulting keys
	{"struct{A:int`x`;B:int`x`}", "(1,2)"},
	{"struct{A:int;I:struct{A:int}`,inline`}", "(1,(2))"},
	{"struct{A:int;M:map[string]int`,inline`}", "(1,{s:61=2})"},
	{"struct{A:int;Aa:int`a`;B:int`A`}", "(1,2,3)"},
	// unsupported types: errors, not panics
	{"struct{A:int;C:chan:int}", "(1,nil)"},
	{"struct{A:int;C:chan:int`,omit`}", "(1,nil)"},
	{"struct{A:int;C:chan:int`-`}", "(1,nil)"},
	{"struct{A:int;c:chan:int}", "(1,nil)"},
	{"struct{A:int;C:chan:int`,omitempty`}", "(1,nil)"},
	{"struct{A:int;C:func`,inline`}", "(1,nil)"},
	{"[]chan:int", "[]"},
	{"[]chan:int", "nil"},
	{"*func", "nil"},
	{"map[string]complex64", "{}"},
	{"[]any", "[<int>1,<chan:int>nil,<int>2]"},
	{"map[string]any", "{s:61=<func>nil}"},
	{"struct{A:int;B:any}", "(1,<complex128>c:00000000000000000000000000000000)"},
	{"struct{A:int;B:any}", "(1,<map[int]int>{1=2})"},
	{"struct{A:int;B:any}", "(1,<struct{X:int`,inline,omitempty`}>(1))"},
	{"struct{A:int;B:any}", "(1,<struct{X:int`,inline`}>(1))"},
	{"map[int]string", "{1=s:61}"},
	{"map[bool]string", "nil"},
	{"map[float64]int", "{}"},
	{"map[string]map[int]int", "{}"},
	{"struct{M:map[int]int`,inline`}", "(nil)"},
	{"struct{A:int`,inline`}", "(1)"},
	{"struct{A:string`,inline`}", "(s:61)"},
	{"struct{A:[]int`,inline`}", "([1])"},
	{"struct{A:*int`,inline`}", "(nil)"},
	{"struct{A:[]struct{X:int}`,inline`}", "(nil)"},
	{"struct{A:@NInt`,inline`}", "(1)"},
	{"struct{A:struct{X:int}`,inline,omitempty`}", "((1))"},
	{"struct{A:struct{X:int}`,omit,inline,omitempty`}", "((1))"},
	{"struct{a:struct{X:int}`,inline,omitempty`}", "((1))"},
	{"struct{A:struct{X:int}`-,inline,omitempty`}", "((1))"},
	// tag syntax
	{"struct{A:int`%20nm%20`;B:int`nm%20,%20omitempty%20`;C:string`,%20omitempty`}", "(1,2,s:)"},
	{"struct{A:int`%20-`;B:int`-%20`;C:int`-,`}", "(1,2,3)"},
	{"struct{A:int`,`;B:int`,,`;C:int`,OMIT`;D:int`,omitEmpty`}", "(1,2,3,4)"},
	{"struct{A:string`a,omitempty,omit`;B:string`,inlin`;C:string`omit`;D:string`omitempty`}", "(s:,s:,s:,s:)"},
	{"struct{A:int`%c3%bc`}", "(1)"},
	// field names
	{"struct{URL:int;IDx:int;X_Y:int;Ünï:int;ünï:int;_Z:int;z:int}", "(1,2,3,4,5,6,7)"},
	// omitempty next to others, announced lengths
	{"struct{A:string`,omitempty`;B:int}", "(s:,1)"},
	{"struct{A:string`,omitempty`;B:int}", "(s:61,1)"},
	{"struct{A:int;b:int;C:int`,omit`;D:int`-`}", "(1,2,3,4)"},
	{"struct{b:int`,omitempty`;A:int}", "(1,2)"},
	{"struct{C:int`,omit,omitempty`;A:int}", "(1,2)"},
	{"[]struct{A:string`,omitempty`;B:int}", "[(s:,1),(s:61,2)]"},
	{"map[string]struct{A:string`,omitempty`}", "{s:6b=(s:)}"},
	// pointers
	{"***int", "nil"}, {"***int", "&nil"}, {"***int", "&&nil"}, {"***int", "&&&7"},
	{"*any", "&<*any>&<int>1"},
	{"struct{P:***string`,omitempty`}", "(&&&s:)"},
	{"struct{P:***string`,omitempty`}", "(&&nil)"},
	{"struct{P:*any`,omitempty`}", "(&<*string>&s:)"},
	{"struct{P:*any`,omitempty`}", "(&<*any>&<string>s:)"},
	{"struct{P:*any`,omitempty`}", "(&<*any>&nil)"},
	{"struct{P:any`,omitempty`}", "(<*any>&<*@ZP>&(0))"},
	{"struct{P:any`,omitempty`}", "(<*any>&<*@ZP>&(1))"},
	// recursive
	{"@N", "(1,&(2,&(3,nil)))"},
	{"*@N", "nil"},
	{"[]@N", "[]"},
	{"struct{A:int;B:any}", "(1,<@N>(1,nil))"},
	{"struct{N:@N`,omit`}", "((1,nil))"},
	{"@NI", "(1,<@NI>(2,<*@NI>&(3,nil)))"},
	{"any", "nil"},
	{"*any", "nil"},
	{"*any", "&nil"},
}

func genFoldShapes(r *Rand, tier string, emit func(string)) {
	for _, s := range foldShapes {
		emit("typeinfo " + s[0])
		emit("goval " + s[0] + " " + s[1])
		emit(foldLine(s[0], s[1], -1))
		emit(foldLine(s[0], s[1], -1) + " nf")
	}
	// iterators without registered user fold functions: UF / UO / UD are ordinary types
	for _, kc := range foldKinds {
		if !strings.Contains(kc.typ, "@U") && kc.typ != "any" {
			continue
		}
		for _, v := range kc.vals {
			for _, tag := range []string{"", ",omitempty", ",inline"} {
				emit(foldLine("struct{A:int;"+tagged("F0", kc.typ, tag)+"}", "(1,"+v+")", -1) + " nf")
			}
			emit(foldLine(kc.typ, v, -1) + " nf")
			emit(foldLine("*"+kc.typ, "&"+v, -1) + " nf")
			if kc.typ != "any" {
				emit(foldLine("[]any", "[<"+kc.typ+">"+v+"]", -1) + " nf")
			}
		}
	}
}

func genFoldRandom(r *Rand, tier string, emit func(string)) {
	g := &foldGen{r: r}
	depth := tierN(tier, 4, 6)
	n := tierN(tier, 4000, 60000)
	for i := 0; i < n; i++ {
		d := 1 + r.Intn(depth)
		t := g.Type(d)
		rt := ParseType(t)
		emit("typeinfo " + t)
		for j := 0; j < 3; j++ {
			v := g.Value(rt, d+1)
			if j == 0 {
				emit("goval " + t + " " + v)
			}
			emit(foldLine(t, v, -1))
		}
	}
}

var cyclicMenagerie = map[string]bool{"N": true, "Tree": true, "MA": true, "MB": true, "NIn": true, "NII": true, "NO": true,
	"NBad": true, "L": true, "MM": true, "NI": true}

// regression cases for the repaired defects: recursive types with finite values several
// levels deep, inline interface fields nested 2-4 deep, nil pointers to Folders in every
// position, IsZero on either receiver and on every kind, user fold functions inline
func foldRegressionCases(r *Rand, tier string, emit func(t, v string)) {
	g := &foldGen{r: r}
	// a value in every position a field / element / dynamic value can take
	positions := func(t string, vals []string, nilable bool) {
		for _, v := range vals {
			emit(t, v)
			emit("*"+t, "&"+v)
			emit("**"+t, "&&"+v)
			emit("struct{A:int;F:"+t+";Z:int}", "(1,"+v+",2)")
			emit("struct{A:int;F:"+t+"`,omitempty`;Z:int}", "(1,"+v+",2)")
			emit("struct{A:int;F:*"+t+"`,omitempty`;Z:int}", "(1,&"+v+",2)")
			emit("struct{A:int;F:**"+t+"`,omitempty`;Z:int}", "(1,&&"+v+",2)")
			emit("struct{A:int;F:"+t+"`,inline`;Z:int}", "(1,"+v+",2)")
			emit("struct{A:int;F:*"+t+"`,inline`;Z:int}", "(1,&"+v+",2)")
			emit("struct{A:int;S:struct{F:"+t+"`nm,omitempty`}`,inline`;Z:int}", "(1,("+v+"),2)")
			emit("[]"+t, "["+v+","+v+"]")
			emit("[1]"+t, "["+v+"]")
			emit("map[string]"+t, "{s:6b="+v+"}")
			emit("[]struct{F:"+t+"`,omitempty`}", "[("+v+"),("+v+")]")
			emit("map[string]struct{F:"+t+"`,omitempty`}", "{s:6b=("+v+")}")
			emit("struct{F:map[string]"+t+"`,inline`}", "({s:6b="+v+"})")
			emit("any", "<"+t+">"+v)
			emit("[]any", "[<"+t+">"+v+",<*"+t+">&"+v+"]")
			emit("map[string]any", "{s:6b=<"+t+">"+v+"}")
			emit("struct{A:int;F:any;Z:int}", "(1,<"+t+">"+v+",2)")
			emit("struct{A:int;F:any`,omitempty`;Z:int}", "(1,<"+t+">"+v+",2)")
			emit("struct{A:int;F:any`,omitempty`;Z:int}", "(1,<*"+t+">&"+v+",2)")
			emit("struct{A:int;F:any`,inline`;Z:int}", "(1,<"+t+">"+v+",2)")
			emit("struct{A:int;F:any`,inline`;Z:int}", "(1,<*"+t+">&"+v+",2)")
			emit("struct{A:int;F:*any`,omitempty`;Z:int}", "(1,&<"+t+">"+v+",2)")
			emit("@NI", "(1,<"+t+">"+v+")")
			emit("@NII", "(1,<"+t+">"+v+")")
		}
		if nilable { // t is a pointer type: nil in every position
			emit(t, "nil")
			emit("*"+t, "&nil")
			emit("struct{A:int;F:"+t+";Z:int}", "(1,nil,2)")
			emit("struct{A:int;F:"+t+"`,omitempty`;Z:int}", "(1,nil,2)")
			emit("struct{A:int;F:*"+t+"`,omitempty`;Z:int}", "(1,&nil,2)")
			emit("struct{A:int;F:"+t+"`,inline`;Z:int}", "(1,nil,2)")
			emit("struct{A:int;F:*"+t+"`,inline`;Z:int}", "(1,&nil,2)")
			emit("[]"+t, "[nil,nil]")
			emit("[2]"+t, "[nil,nil]")
			emit("map[string]"+t, "{s:6b=nil}")
			emit("struct{F:map[string]"+t+"`,inline`}", "({s:6b=nil})")
			emit("any", "<"+t+">nil")
			emit("[]any", "[<"+t+">nil,<*"+t+">&nil,<"+t+">nil]")
			emit("map[string]any", "{s:6b=<"+t+">nil}")
			emit("struct{A:int;F:any;Z:int}", "(1,<"+t+">nil,2)")
			emit("struct{A:int;F:any`,omitempty`;Z:int}", "(1,<"+t+">nil,2)")
			emit("struct{A:int;F:any`,inline`;Z:int}", "(1,<"+t+">nil,2)")
			emit("struct{A:int;F:*any`,inline`;Z:int}", "(1,&<"+t+">nil,2)")
			emit("@NI", "(1,<"+t+">nil)")
			emit("@NII", "(1,<"+t+">nil)")
			emit("@Tree", "(1,nil,{s:6b=nil})")
		}
	}
	// nil pointers to Folders (value and pointer receiver) and to user-folded types
	for _, kc := range []kindCase{
		{"@FV", []string{"(1,s:78)"}}, {"@FS", []string{"3"}}, {"@FOpen", []string{"(1)"}}, {"@EmbF", []string{"((1,s:78),2)"}},
		{"@FInts", []string{"[1,2,3]", "nil"}}, {"@FMap", []string{"{s:6b=1}", "nil"}},
		{"@FP", []string{"(1)"}}, {"@UF", []string{"(1)"}}, {"@UO", []string{"(1,s:65)"}}, {"@UD", []string{"5"}},
	} {
		positions(kc.typ, kc.vals, false)
		positions("*"+kc.typ, nil, true)
	}
	// IsZero: zero and non-zero, both receivers, every kind
	for _, kc := range []kindCase{
		{"@ZP", []string{"(0)", "(1)"}}, {"@ZV", []string{"(0)", "(1)"}}, {"@ZInt", []string{"0", "1"}},
		{"@ZStr", []string{"s:", "s:7a65726f", "s:61"}}, {"@EmbZ", []string{"((0),1)", "((1),1)"}}, {"@TimeLike", []string{"(0,0)", "(1,2)"}},
		{"@ZInts", []string{"nil", "[]", "[0,1]", "[1,0]"}}, {"@ZMapP", []string{"nil", "{}", "{s:6b=1}", "{s:6b=1,s:6c=2}"}},
		{"@ZArr", []string{"[0,0]", "[0,1]"}},
	} {
		positions(kc.typ, kc.vals, false)
		positions("*"+kc.typ, nil, true)
	}
	// recursive types, finite values several levels deep
	for _, tv := range [][2]string{
		{"@N", "(1,nil)"}, {"@N", "(1,&(2,&(3,&(4,&(5,nil)))))"},
		{"@Tree", "(1,nil,nil)"}, {"@Tree", "(1,[(2,[(3,[(4,nil,nil)],{s:61=&(5,[],{}),s:62=nil})],nil),(6,nil,{s:63=&(7,[(8,nil,nil)],nil)})],{s:64=&(9,nil,nil)})"},
		{"@MA", "(1,nil)"}, {"@MA", "(1,&(s:62,&(2,&(s:63,nil,[(3,nil),(4,&(s:64,nil,nil))])),[(5,nil)]))"}, {"@MB", "(s:,nil,nil)"},
		{"@NIn", "(1,nil)"}, {"@NIn", "(1,&(2,&(3,&(4,nil))))"},
		{"@NO", "(1,nil)"}, {"@NO", "(1,&(2,&(3,nil)))"},
		{"@NBad", "(1,nil,nil)"}, {"@NBad", "(1,&(2,nil,nil),nil)"},
		{"@L", "nil"}, {"@L", "[[],[[],[[]]],nil]"}, {"@MM", "nil"}, {"@MM", "{s:61={s:62={s:63={}}},s:64=nil}"},
		{"@NI", "(1,<@NI>(2,<*@NI>&(3,<@N>(4,&(5,nil)))))"},
	} {
		positions(tv[0], []string{tv[1]}, false)
		positions("*"+tv[0], nil, true)
	}
	for _, name := range []string{"N", "Tree", "MA", "MB", "NIn", "NII", "NO", "L", "MM", "NI"} {
		t := "@" + name
		rt := ParseType(t)
		for i := 0; i < tierN(tier, 6, 40); i++ {
			d := 3 + r.Intn(4)
			emit(t, g.Value(rt, d))
			emit("[]"+t, g.Value(ParseType("[]"+t), d))
			emit("map[string]*"+t, g.Value(ParseType("map[string]*"+t), d))
			emit("struct{A:[2]"+t+";B:any}", "("+g.Value(ParseType("[2]"+t), d)+",<*"+t+">"+g.Value(ParseType("*"+t), d)+")")
		}
	}
	// inline interface fields nested 1..4 deep
	inner := []string{"<map[string]int>{s:6b=1}", "<map[string]int>{}", "<map[string]any>{s:6b=<int>1,s:6c=nil}", "<struct{X:int}>(7)", "<*struct{X:int}>&(7)",
		"<@FV>(1,s:78)", "<*@FV>&(1,s:78)", "<@FP>(1)", "<@UO>(1,s:65)", "<@Inner>(1,s:79)", "<struct{}>()", "nil",
		"<int>1", "<[]int>[1]", "<*@FV>nil", "<@FS>3", "<map[int]int>{}", "<@N>(1,&(2,nil))"}
	wrap := []func(string) string{
		func(v string) string { return "<struct{B:any`,inline`}>(" + v + ")" },
		func(v string) string { return "<struct{X:int;B:any`,inline`;Y:int}>(1," + v + ",2)" },
		func(v string) string { return "<*struct{B:*any`,inline`}>&(&" + v + ")" },
		func(v string) string { return "<@NII>(5," + v + ")" },
		func(v string) string { return "<struct{B:any`,inline`;C:any`,inline`}>(" + v + "," + v + ")" },
		func(v string) string { return "<map[string]any>{s:6d=<struct{B:any`,inline`}>(" + v + ")}" },
		func(v string) string { return "<struct{S:struct{B:any`,inline`}`,inline`}>((" + v + "))" },
	}
	for _, in := range inner {
		emit("struct{A:any`,inline`}", "("+in+")")
		for _, w1 := range wrap {
			emit("struct{A:any`,inline`}", "("+w1(in)+")")
			emit("struct{P:int;A:any`,inline`;Q:int}", "(1,"+w1(in)+",2)")
			for _, w2 := range wrap {
				emit("struct{A:any`,inline`}", "("+w2(w1(in))+")")
			}
		}
		for i := 0; i < tierN(tier, 4, 30); i++ {
			v := in
			for d := 0; d < 3+r.Intn(2); d++ {
				v = Pick(r, wrap)(v)
			}
			emit("struct{A:any`,inline`;Z:int}", "("+v+",9)")
		}
	}
}

func genFoldRegressions(r *Rand, tier string, emit func(string)) {
	foldRegressionCases(r, tier, func(t, v string) {
		emit("goval " + t + " " + v)
		emit(foldLine(t, v, -1))
		if strings.Contains(t, "@U") || strings.Contains(v, "@U") {
			emit(foldLine(t, v, -1) + " nf")
		}
	})
	// one iterator, several values: failed compilations of recursive types leave nothing behind
	for _, f := range [][]string{
		{"@NBad", "(1,nil,nil)", "*@NBad", "nil", "[]*@NBad", "[nil]", "struct{A:*@NBad}", "(nil)", "@N", "(1,nil)"},
		{"*@NBad", "nil", "@NBad", "(1,nil,nil)", "map[string]*@NBad", "{}", "@Tree", "(1,nil,nil)"},
		{"struct{A:@N;C:chan:int}", "((1,nil),nil)", "@N", "(1,&(2,nil))", "*@N", "nil", "struct{A:@N;C:chan:int}", "((1,nil),nil)"},
		{"struct{A:@NIn;C:func}", "((1,nil),nil)", "@NIn", "(1,&(2,nil))", "struct{F:@NIn`,inline`}", "((1,nil))"},
		{"@N", "(1,&(2,nil))", "@MA", "(1,&(s:62,&(2,nil),nil))", "@MB", "(s:,&(1,nil),[(2,nil)])", "@Tree", "(1,[(2,nil,nil)],nil)", "@N", "(3,nil)"},
		{"struct{A:any`,inline`}", "(<struct{B:any`,inline`}>(<map[string]int>{s:6b=1}))", "struct{A:any`,inline`}", "(<int>1)", "struct{A:any`,inline`}", "(<struct{B:any`,inline`}>(<map[string]int>{s:6c=2}))"},
		{"struct{F:*@FV}", "(nil)", "*@FV", "nil", "[]any", "[<*@FV>nil,<@FV>(1,s:)]"},
		{"struct{F:@ZP`,omitempty`}", "((1))", "struct{F:@ZP`,omitempty`}", "((0))", "struct{F:*@ZP`,omitempty`}", "(&(1))", "struct{F:@ZMapP`,omitempty`}", "({s:6b=1})"},
		{"struct{F:@UO`,inline`}", "((1,s:65))", "@UO", "(2,s:)", "struct{F:*@UO`,inline`;G:@UF`,inline`}", "(nil,(1))", "struct{F:*@UO`,inline`}", "(&(3,s:))"},
	} {
		emit("fold-seq " + strings.Join(f, " "))
	}
}

// one iterator for several values
func genFoldSeq(r *Rand, tier string, emit func(string)) {
	g := &foldGen{r: r}
	fixed := [][]string{
		{"int", "5", "int", "6", "string", "s:61"},
		{"struct{A:int}", "(1)", "struct{A:int}", "(2)", "*struct{A:int}", "&(3)", "*struct{A:int}", "nil"},
		{"struct{A:any`,inline`}", "(<map[string]int>{s:6b=1})", "struct{B:any`,inline`}", "(<struct{X:int}>(2))", "struct{A:any`,inline`}", "(<int>1)", "struct{A:any`,inline`}", "(<map[string]int>{s:6c=3})"},
		{"struct{A:@FV`,inline`}", "((1,s:78))", "struct{B:*@FV`,inline`;C:@FV`,inline`}", "(nil,(2,s:79))", "@FV", "(3,s:)"},
		{"struct{C:chan:int}", "(nil)", "struct{C:chan:int}", "(nil)", "struct{A:int}", "(1)"},
		{"struct{F:*@FV}", "(nil)", "struct{F:*@FV}", "(&(1,s:78))", "struct{F:*@FV}", "(nil)"},
		{"struct{F:@ZP`,omitempty`}", "((1))", "struct{F:@ZP`,omitempty`}", "((0))", "@ZP", "(1)"},
		{"struct{A:any`,inline`}", "(<struct{B:any`,inline`}>(<map[string]int>{}))", "struct{A:any`,inline`}", "(<map[string]int>{s:6b=1})"},
		{"@UF", "(1)", "*@UF", "nil", "struct{A:@UF;B:*@UF}", "((1),&(2))", "[]any", "[<@UF>(3),<*@UD>&4]"},
		{"map[string]any", "{s:61=<int>1,s:62=<int>2,s:63=<[]any>[nil]}", "map[string]any", "{s:61=<int>1,s:62=<int>2,s:63=<[]any>[nil]}"},
	}
	for _, f := range fixed {
		emit("fold-seq " + strings.Join(f, " "))
	}
	n := tierN(tier, 400, 5000)
	for i := 0; i < n; i++ {
		var args []string
		var pool []string
		for j := 0; j < 1+r.Intn(3); j++ {
			pool = append(pool, g.Type(1+r.Intn(3)))
		}
		risky := false
		for j := 0; j < 2+r.Intn(4); j++ {
			t := Pick(r, pool)
			v := g.Value(ParseType(t), 3)
			// a dead child loses the events and with them the map order the outcome may
			// depend on: sequences stay in-process
			risky = risky || riskyValue(ParseValue(ParseType(t), v), 0)
			args = append(args, t, v)
		}
		if risky {
			continue
		}
		emit("fold-seq " + strings.Join(args, " "))
	}
}

// number of events of an un-faulted fold, or -1 when the value must not be folded in-process
func foldEventCount(t, v string) int {
	rv := ParseValue(ParseType(t), v)
	if riskyValue(rv, 0) {
		return -1
	}
	obs := opFold([]string{t, v, "-1"})
	evs := strings.SplitN(obs, "|", 2)[0]
	if evs == "-" {
		return 0
	}
	return strings.Count(evs, ",") + 1
}

// fault index k exhaustive for small values
func genFoldFaults(r *Rand, tier string, emit func(string)) {
	g := &foldGen{r: r}
	maxEv := tierN(tier, 24, 40)
	all := func(t, v string) {
		n := foldEventCount(t, v)
		if n < 0 || n > maxEv {
			return
		}
		for k := 0; k <= n; k++ {
			emit(foldLine(t, v, k))
		}
	}
	for _, s := range foldShapes {
		all(s[0], s[1])
	}
	j := 0
	foldRegressionCases(r.Fork(), tier, func(t, v string) {
		j++
		if j%tierN(tier, 3, 1) == 0 {
			all(t, v)
		}
	})
	i := 0
	foldTagCases(func(t, v string) {
		i++
		if i%tierN(tier, 11, 3) == 0 {
			all(t, v)
		}
	})
	for _, kc := range containerElems {
		v3 := strings.Join(kc.vals, ",")
		all("[]"+kc.typ, "["+v3+"]")
		m3 := "{s:61=" + kc.vals[0] + ",s:62=" + kc.vals[1] + ",s:=" + kc.vals[2] + "}"
		all("map[string]"+kc.typ, m3)
		all("struct{A:int;F:map[string]"+kc.typ+"`,inline`;G:int}", "(0,"+m3+",1)")
		all("struct{A:int;F:any`,inline`;G:int}", "(0,<map[string]"+kc.typ+">"+m3+",1)")
		all("any", "<map[string]"+kc.typ+">"+m3)
		all("[]any", "[<[]"+kc.typ+">["+v3+"],<map[string]"+kc.typ+">"+m3+"]")
	}
	n := tierN(tier, 250, 3000)
	for j := 0; j < n; j++ {
		t := g.Type(1 + r.Intn(3))
		all(t, g.Value(ParseType(t), 3))
	}
}

func genFoldNoFaults(r *Rand, tier string, emit func(string)) {
	genFoldRegressions(r.Fork(), tier, emit)
	genFoldMenagerie(r.Fork(), tier, emit)
	genFoldTags(r.Fork(), tier, emit)
	genFoldScalars(r.Fork(), tier, emit)
	genFoldContainers(r.Fork(), tier, emit)
	genFoldShapes(r.Fork(), tier, emit)
	genFoldRandom(r.Fork(), tier, emit)
	genFoldSeq(r.Fork(), tier, emit)
}

func init() {
	RegisterGen("XFOLD", genFoldNoFaults)
	RegisterGen("XFOLD", genFoldFaults)
	RegisterGen("C12", genFoldNoFaults)
	RegisterGen("C09", func(r *Rand, tier string, emit func(string)) {
		genFoldTags(r.Fork(), tier, emit)
		genFoldContainers(r.Fork(), tier, emit)
		genFoldShapes(r.Fork(), tier, emit)
		genFoldRandom(r.Fork(), tier, emit)
	})
	RegisterGen("C16", genFoldFaults)
}
