package sfh

import (
	"fmt"
	"strings"
)

// genFoldSeqInline: histories on ONE iterator in which a type is first compiled in one role
// (plain value, pointer, field, element, inline member) and afterwards met in another role.
// The per-iterator registry caches compiled folders per (type, role); C17 demands that the
// reused iterator emits what a fresh one emits.
func genFoldSeqInline(r *Rand, tier string, emit func(string)) {
	g := &foldGen{r: r}
	n := tierN(tier, 150, 2500)
	for i := 0; i < n; i++ {
		var inner string
		switch r.Intn(4) {
		case 0:
			inner = g.StructType(1 + r.Intn(2))
		case 1:
			inner = "map[string]" + Pick(r, []string{"int", "string", "any", "uint8", "float64"})
		case 2:
			inner = "@Inner"
		default:
			inner = "struct{A:int;B:string`bee,omitempty`}"
		}
		it := ParseType(inner)
		if it == nil {
			continue
		}
		roles := []string{
			inner,
			"*" + inner,
			fmt.Sprintf("struct{P:%s}", inner),
			fmt.Sprintf("struct{Id:int;E:%s`,inline`}", inner),
			fmt.Sprintf("struct{Id:int;E:*%s`,inline`;Z:string}", inner),
			fmt.Sprintf("[]%s", inner),
			fmt.Sprintf("map[string]%s", inner),
			fmt.Sprintf("struct{E:%s`,inline`;F:%s`f`}", inner, inner),
		}
		var args []string
		risky := false
		k := 2 + r.Intn(4)
		for j := 0; j < k; j++ {
			t := Pick(r, roles)
			pt := ParseType(t)
			if pt == nil {
				risky = true
				break
			}
			v := g.Value(pt, 3)
			risky = risky || riskyValue(ParseValue(pt, v), 0)
			args = append(args, t, v)
		}
		if risky {
			continue
		}
		emit("fold-seq " + strings.Join(args, " "))
	}
}

func init() {
	RegisterGen("C17", genFoldSeq)
	RegisterGen("C17", genFoldSeqInline)
	RegisterGen("XFOLD", genFoldSeqInline)
}

// genFoldSeqRefused: histories on ONE iterator that contain types the folder must refuse (a
// chan / func / complex field, a non-string map key, inline of a non-object) in plain, pointer,
// element and INLINE position, each followed by the same and by related types: a refused type
// must leave nothing behind in the iterator's registry (C11: refused with an error, never a
// crash; C17: reused = fresh)
func genFoldSeqRefused(r *Rand, tier string, emit func(string)) {
	bad := []string{"struct{C:chan:int}", "struct{A:int;F:func}", "struct{Z:complex128}", "map[int]string", "struct{M:map[bool]int}", "struct{A:int;U:uintptr}"}
	for _, b := range bad {
		bv := "nil"
		if strings.HasPrefix(b, "struct") {
			switch {
			case strings.Contains(b, "A:int;F:func"):
				bv = "(1,nil)"
			case strings.Contains(b, "complex"):
				bv = "(c:00000000000000000000000000000000)"
			case strings.Contains(b, "uintptr"):
				bv = "(1,2)"
			case strings.Contains(b, "map[bool]"):
				bv = "(nil)"
			default:
				bv = "(nil)"
			}
		}
		roles := [][2]string{
			{b, bv},
			{"*" + b, "nil"},
			{"struct{P:" + b + "}", "(" + bv + ")"},
			{"struct{Id:int;E:" + b + "`,inline`}", "(1," + bv + ")"},
			{"struct{Id:int;E:*" + b + "`,inline`;Z:int}", "(1,nil,2)"},
			{"[]" + b, "[]"},
			{"map[string]" + b, "{}"},
			{"struct{X:struct{Y:" + b + "`,inline`}`,inline`}", "((" + bv + "))"},
			{"struct{A:int}", "(7)"},
		}
		for i := range roles {
			for j := range roles {
				emit(fmt.Sprintf("fold-seq %s %s %s %s %s %s", roles[i][0], roles[i][1], roles[j][0], roles[j][1], roles[i][0], roles[i][1]))
			}
		}
	}
}

func init() {
	RegisterGen("C11", genFoldSeqRefused)
	RegisterGen("C17", genFoldSeqRefused)
	RegisterGen("C12", genFoldSeqRefused)
	RegisterGen("XFOLD", genFoldSeqRefused)
}
