package sfh

import (
	"fmt"
	"strings"
)

// genFoldSeqInline: histories on ONE iterator in which a type is first compiled in one role
// (plain value, pointer, field, element, inline member) and afterwards met in another role.
// The per-iterator registry caches compiled folders per (type, role); C17 demands that the
// reused iterator emits what a fresh one emits.
func genFoldSeqInline(r *Rand, tier string, emit func(string)) {
	g := &foldGen{r: r}
	n := tierN(tier, 150, 2500)
	for i := 0; i < n; i++ {
		var inner string
		switch r.Intn(4) {
		case 0:
			inner = g.StructType(1 + r.Intn(2))
		case 1:
			inner = "map[string]" + Pick(r, []string{"int", "string", "any", "uint8", "float64"})
		case 2:
			inner = "@Inner"
		default:
			inner = "struct{A:int;B:string`bee,omitempty`}"
		}
		it := ParseType(inner)
		if it == nil {
			continue
		}
		roles := []string{
			inner,
			"*" + inner,
			fmt.Sprintf("struct{P:%s}", inner),
			fmt.Sprintf("struct{Id:int;E:%s`,inline`}", inner),
			fmt.Sprintf("struct{Id:int;E:*%s`,inline`;Z:string}", inner),
			fmt.Sprintf("[]%s", inner),
			fmt.Sprintf("map[string]%s", inner),
			fmt.Sprintf("struct{E:%s`,inline`;F:%s`f`}", inner, inner),
		}
		var args []string
		risky := false
		k := 2 + r.Intn(4)
		for j := 0; j < k; j++ {
			t := Pick(r, roles)
			pt := ParseType(t)
			if pt == nil {
				risky = true
				break
			}
			v := g.Value(pt, 3)
			risky = risky || riskyValue(ParseValue(pt, v), 0)
			args = append(args, t, v)
		}
		if risky {
			continue
		}
		emit("fold-seq " + strings.Join(args, " "))
	}
}

func init() {
	RegisterGen("C17", genFoldSeq)
	RegisterGen("C17", genFoldSeqInline)
	RegisterGen("XFOLD", genFoldSeqInline)
}
