package sfh

import (
	"encoding/binary"
	"fmt"
	"strings"
)

// UBJSON (draft 12) wire generator: what foreign encoders may emit (any integer
// marker wide enough, any length marker, counted and typed containers, typed
// containers of containers, no-ops), written from the grammar of DESIGN appendix
// A.5 and independent of the library's encoder.

// ubjFixed appends the payload of an integer under marker m (i U C I l L).
func ubjFixed(m byte, v int64, out []byte) []byte {
	switch m {
	case 'i', 'U', 'C':
		return append(out, byte(v))
	case 'I':
		return binary.BigEndian.AppendUint16(out, uint16(v))
	case 'l':
		return binary.BigEndian.AppendUint32(out, uint32(v))
	case 'L':
		return binary.BigEndian.AppendUint64(out, uint64(v))
	}
	panic("ubjFixed")
}

// ubjFits: can marker m carry the integer v?
func ubjFits(m byte, v int64) bool {
	switch m {
	case 'i':
		return -128 <= v && v <= 127
	case 'U':
		return 0 <= v && v <= 255
	case 'C':
		return 0 <= v && v <= 127
	case 'I':
		return -32768 <= v && v <= 32767
	case 'l':
		return -2147483648 <= v && v <= 2147483647
	case 'L':
		return true
	}
	return false
}

var ubjIntMarkers = []byte{'i', 'U', 'I', 'l', 'L'}

// smallest marker, in the order the library's onInt tries them
func ubjMinMarker(v int64) byte {
	for _, m := range ubjIntMarkers {
		if ubjFits(m, v) {
			return m
		}
	}
	return 'L'
}

// ubjIntMarker: the marker an encoder uses for v. withChar: 'C' is admissible.
func (r *Rand) ubjIntMarker(v int64, minimal, withChar bool) byte {
	if minimal || r.P(50) {
		return ubjMinMarker(v)
	}
	var fit []byte
	for _, m := range ubjIntMarkers {
		if ubjFits(m, v) {
			fit = append(fit, m)
		}
	}
	if withChar && ubjFits('C', v) {
		fit = append(fit, 'C')
	}
	return Pick(r, fit)
}

// ubjLen: a length / count with any admissible marker.
func (r *Rand) ubjLen(n int, minimal bool, out []byte) []byte {
	m := r.ubjIntMarker(int64(n), minimal, false)
	return ubjFixed(m, int64(n), append(out, m))
}

func allDigits(s []byte) bool {
	if len(s) == 0 {
		return false
	}
	for _, c := range s {
		if c < '0' || c > '9' {
			return false
		}
	}
	return true
}

// ubjElemType: a type marker all children can be written under, if any.
func (r *Rand) ubjElemType(cs []*V) (byte, bool) {
	if len(cs) == 0 {
		return Pick(r, []byte("ZTFiUIlLdDCSH[{")), true
	}
	k := cs[0].K
	for _, c := range cs {
		if c.K != k {
			return 0, false
		}
	}
	switch k {
	case VNull:
		return 'Z', true
	case VBool:
		for _, c := range cs {
			if c.B != cs[0].B {
				return 0, false
			}
		}
		if cs[0].B {
			return 'T', true
		}
		return 'F', true
	case VInt:
		var fit []byte
		for _, m := range []byte("iUIlLC") {
			ok := true
			for _, c := range cs {
				if !c.I.IsInt64() || !ubjFits(m, c.I.Int64()) {
					ok = false
				}
			}
			if ok {
				fit = append(fit, m)
			}
		}
		if len(fit) == 0 {
			return 0, false
		}
		return Pick(r, fit), true
	case VF32:
		return 'd', true
	case VF64:
		return 'D', true
	case VStr:
		dig := true
		for _, c := range cs {
			dig = dig && allDigits(c.S)
		}
		if dig && r.Bool() {
			return 'H', true
		}
		return 'S', true
	case VArr:
		return '[', true
	case VObj:
		return '{', true
	}
	return 0, false
}

// ubjPayload: v without its marker, as an element of a container typed t.
func (r *Rand) ubjPayload(t byte, v *V, out []byte) []byte {
	switch t {
	case 'Z', 'T', 'F':
		return out
	case 'i', 'U', 'C', 'I', 'l', 'L':
		return ubjFixed(t, v.I.Int64(), out)
	case 'd':
		return binary.BigEndian.AppendUint32(out, uint32(v.Bits))
	case 'D':
		return binary.BigEndian.AppendUint64(out, v.Bits)
	case 'S', 'H':
		out = r.ubjLen(len(v.S), false, out)
		return append(out, v.S...)
	case '[', '{':
		// the container without its opening marker
		return append(out, r.ubjValue(v, false, nil)[1:]...)
	}
	panic("ubjPayload")
}

func (r *Rand) ubjNoops(minimal bool, out []byte) []byte {
	for !minimal && r.P(8) {
		out = append(out, 'N')
	}
	return out
}

func (r *Rand) ubjValue(v *V, minimal bool, out []byte) []byte {
	switch v.K {
	case VNull:
		return append(out, 'Z')
	case VBool:
		if v.B {
			return append(out, 'T')
		}
		return append(out, 'F')
	case VInt:
		if !v.I.IsInt64() {
			// outside int64: only as high-precision number (value = its digits)
			s := v.I.String()
			out = r.ubjLen(len(s), minimal, append(out, 'H'))
			return append(out, s...)
		}
		n := v.I.Int64()
		m := r.ubjIntMarker(n, minimal, true)
		return ubjFixed(m, n, append(out, m))
	case VF32:
		return binary.BigEndian.AppendUint32(append(out, 'd'), uint32(v.Bits))
	case VF64:
		return binary.BigEndian.AppendUint64(append(out, 'D'), v.Bits)
	case VStr:
		m := byte('S')
		if !minimal && allDigits(v.S) && r.Bool() {
			m = 'H'
		}
		out = r.ubjLen(len(v.S), minimal, append(out, m))
		return append(out, v.S...)
	case VArr:
		n := len(v.Arr)
		out = append(out, '[')
		if minimal {
			// the library: count iff the length is known and > 0
			if n == 0 {
				return append(out, ']')
			}
			out = r.ubjLen(n, true, append(out, '#'))
			for _, c := range v.Arr {
				out = r.ubjValue(c, true, out)
			}
			return out
		}
		switch r.Intn(3) {
		case 0: // typed + counted
			if t, ok := r.ubjElemType(v.Arr); ok {
				out = append(out, '$', t, '#')
				if t == 'Z' || t == 'T' || t == 'F' {
					// elements without payload: the count alone determines the parser's
					// work, so keep it out of reach of a single mutation (no l / L counts)
					m := Pick(r, []byte("iUI"))
					out = ubjFixed(m, int64(n), append(out, m))
				} else {
					out = r.ubjLen(n, false, out)
				}
				for _, c := range v.Arr {
					out = r.ubjPayload(t, c, out)
				}
				return out
			}
			fallthrough
		case 1: // counted
			out = r.ubjLen(n, false, append(out, '#'))
			for _, c := range v.Arr {
				out = r.ubjValue(c, false, r.ubjNoops(false, out))
			}
			return out
		default: // plain
			for _, c := range v.Arr {
				out = r.ubjValue(c, false, r.ubjNoops(false, out))
			}
			return append(r.ubjNoops(false, out), ']')
		}
	case VObj:
		n := len(v.Arr)
		out = append(out, '{')
		key := func(i int, out []byte) []byte {
			out = r.ubjLen(len(v.Keys[i]), minimal, out)
			return append(out, v.Keys[i]...)
		}
		if minimal {
			if n == 0 {
				return append(out, '}')
			}
			out = r.ubjLen(n, true, append(out, '#'))
			for i, c := range v.Arr {
				out = r.ubjValue(c, true, key(i, out))
			}
			return out
		}
		switch r.Intn(3) {
		case 0:
			if t, ok := r.ubjElemType(v.Arr); ok {
				out = r.ubjLen(n, false, append(out, '$', t, '#'))
				for i, c := range v.Arr {
					out = r.ubjPayload(t, c, key(i, out))
				}
				return out
			}
			fallthrough
		case 1:
			out = r.ubjLen(n, false, append(out, '#'))
			for i, c := range v.Arr {
				out = r.ubjValue(c, false, key(i, out))
			}
			return out
		default:
			for i, c := range v.Arr {
				out = r.ubjValue(c, false, key(i, out))
			}
			return append(out, '}')
		}
	}
	panic("ubjwire")
}

// UbjWire renders v as a UBJSON document. minimal: the shape the library's own
// encoder gives basic events (smallest markers, counted containers).
func (r *Rand) UbjWire(v *V, minimal bool, out []byte) []byte {
	out = r.ubjNoops(minimal, out) // no-ops between top-level values
	return r.ubjValue(v, minimal, out)
}

// ---------------------------------------------------------------------------
// targeted encoder ops

var arrKinds = []string{"bool", "str", "i8", "i16", "i32", "i64", "i", "b", "u8", "u16", "u32", "u64", "u", "f32", "f64"}
var objKinds = []string{"bool", "str", "i8", "i16", "i32", "i64", "i", "u8", "u16", "u32", "u64", "u", "f32", "f64"}

var ubjStrLens = []int{0, 1, 2, 127, 128, 255, 256, 32767, 32768}

func asciiOfLen(r *Rand, n int) []byte {
	b := make([]byte, n)
	for i := range b {
		b[i] = byte('a' + r.Intn(26))
	}
	return b
}

// element pools per kind, as the element strings of typed array / map tokens
func (r *Rand) elemPool(kind string) []string {
	switch kind {
	case "bool":
		return []string{"T", "F"}
	case "str":
		var es []string
		for _, n := range []int{0, 1, 2, 127, 128, 255, 256} {
			es = append(es, hx(asciiOfLen(r, n)))
		}
		es = append(es, hx([]byte{0}), hx([]byte("é")), hx([]byte{0xff}), hx([]byte("12345")))
		return es
	case "f32":
		var es []string
		for _, b := range f32Special {
			es = append(es, fmt.Sprintf("%08x", b))
		}
		return es
	case "f64":
		var es []string
		for _, b := range f64Special {
			es = append(es, fmt.Sprintf("%016x", b))
		}
		return es
	}
	k := KindByName(kind)
	var es []string
	for _, v := range Boundaries {
		if k.Fits(v) {
			es = append(es, v.String())
		}
	}
	return es
}

func typedTok(prefix byte, kind string, es []string) string {
	return fmt.Sprintf("%c%s:%d:%s", prefix, kind, len(es), strings.Join(es, "/"))
}

// contexts a value token is placed in: top level, counted array, unknown-length
// array, object member (counted / unknown), each followed by siblings
var encContexts = [][2]string{
	{"", ""},
	{"[2:0,", ",N,]"},
	{"[-1:0,", ",T,]"},
	{"[1:0,", ",],i8:1"},
	{"{1:0,K:61,", ",}"},
	{"{-1:0,K:61,", ",K:62,N,}"},
	{"[-1:0,{2:0,K:,", ",K:6b,[0:0,],},]"},
}

func emitEnc(emit func(string), r *Rand, toks string, faults int) {
	emit("enc ubj - -1 " + toks)
	for i := 0; i < faults; i++ {
		emit(fmt.Sprintf("enc ubj - %d %s", r.Intn(3+3*strings.Count(toks, ",")+3*strings.Count(toks, "/")), toks))
	}
}

func emitEncAllFaults(emit func(string), toks string, upTo int) {
	emit("enc ubj - -1 " + toks)
	for k := 0; k <= upTo; k++ {
		emit(fmt.Sprintf("enc ubj - %d %s", k, toks))
	}
}

func genUbjEncTargeted() GenFn {
	return func(r *Rand, tier string, emit func(string)) {
		rounds := tierN(tier, 1, 6)
		for round := 0; round < rounds; round++ {
			// typed arrays
			for _, kind := range arrKinds {
				pool := r.elemPool(kind)
				var docs []string
				docs = append(docs, typedTok('A', kind, nil))
				for _, e := range pool { // every boundary value alone
					docs = append(docs, typedTok('A', kind, []string{e}))
				}
				for i := 0; i < 6; i++ { // several
					n := 2 + r.Intn(6)
					es := make([]string, n)
					for j := range es {
						es[j] = Pick(r, pool)
					}
					docs = append(docs, typedTok('A', kind, es))
				}
				docs = append(docs, typedTok('A', kind, pool)) // all boundary values at once
				if kind == "u64" || kind == "u" {
					// values above MaxInt64 force the high-precision element type for all
					for _, es := range [][]string{
						{"9223372036854775808"}, {"18446744073709551615"},
						{"0", "9223372036854775808"}, {"9223372036854775808", "0"},
						{"1", "127", "128", "255", "256", "32768", "2147483648", "9223372036854775807", "9223372036854775808"},
						{"18446744073709551615", "999999999999999", "1000000000000000", "12345678901234567890", "7"},
						{"9223372036854775807", "9223372036854775806"},
					} {
						docs = append(docs, typedTok('A', kind, es))
					}
				}
				for i, d := range docs {
					if i == 0 || i > len(pool) {
						for _, c := range encContexts {
							emitEnc(emit, r, c[0]+d+c[1], 2)
						}
					} else {
						c := Pick(r, encContexts)
						emitEnc(emit, r, c[0]+d+c[1], 1)
					}
				}
				// exhaustive fault indices on small documents
				emitEncAllFaults(emit, typedTok('A', kind, nil), 2)
				emitEncAllFaults(emit, "[1:0,"+typedTok('A', kind, []string{pool[0], pool[len(pool)-1]})+",]", 12)
				emitEncAllFaults(emit, "{-1:0,K:61,"+typedTok('A', kind, []string{pool[len(pool)/2]})+",}", 12)
			}
			// typed maps (<= 1 entry: Go map order)
			keys := []string{"", "61", "6b6579", hx(asciiOfLen(r, 127)), hx(asciiOfLen(r, 128)), hx(asciiOfLen(r, 256)), "ff"}
			for _, kind := range objKinds {
				pool := r.elemPool(kind)
				var docs []string
				docs = append(docs, typedTok('O', kind, nil))
				for _, e := range pool {
					docs = append(docs, typedTok('O', kind, []string{Pick(r, keys) + "=" + e}))
				}
				if kind == "u64" || kind == "u" {
					docs = append(docs, typedTok('O', kind, []string{"61=9223372036854775808"}),
						typedTok('O', kind, []string{"=18446744073709551615"}))
				}
				for i, d := range docs {
					if i == 0 || i%7 == 0 {
						for _, c := range encContexts {
							emitEnc(emit, r, c[0]+d+c[1], 1)
						}
					} else {
						c := Pick(r, encContexts)
						emitEnc(emit, r, c[0]+d+c[1], 1)
					}
				}
				emitEncAllFaults(emit, typedTok('O', kind, nil), 2)
				emitEncAllFaults(emit, "[1:0,"+typedTok('O', kind, []string{"6b=" + pool[0]})+",]", 12)
				emitEncAllFaults(emit, "{-1:0,K:61,"+typedTok('O', kind, []string{"=" + pool[len(pool)-1]})+",}", 12)
			}
			// integers at every marker boundary, every kind, inside containers and under faults
			for _, v := range Boundaries {
				for _, k := range Kinds {
					if !k.Fits(v) {
						continue
					}
					t := numTok(k, v)
					c := Pick(r, encContexts[1:])
					emit("enc ubj - -1 " + c[0] + t + c[1])
					emit(fmt.Sprintf("enc ubj - %d %s", r.Intn(4), t))
				}
			}
			for _, v := range []string{"9223372036854775808", "18446744073709551615", "12345678901234567890"} {
				for _, k := range []string{"u64", "u"} {
					emitEncAllFaults(emit, k+":"+v, 5)
					emitEncAllFaults(emit, "[2:0,"+k+":"+v+",u8:1,]", 9)
				}
			}
			// strings / keys at the length-marker boundaries
			for _, n := range ubjStrLens {
				if n > 1000 && round > 0 {
					continue // the 32 KiB strings once per run are enough
				}
				s := hx(asciiOfLen(r, n))
				for _, t := range []string{"S:" + s, "R:" + s} {
					emitEncAllFaults(emit, t, 4)
					emitEnc(emit, r, "[2:0,"+t+","+t+",]", 2)
				}
				for _, kt := range []string{"K:" + s, "Q:" + s} {
					emitEncAllFaults(emit, "{1:0,"+kt+",T,}", 6)
					emitEnc(emit, r, "{-1:0,"+kt+",S:"+s+",}", 2)
				}
				emitEncAllFaults(emit, typedTok('A', "str", []string{s}), 6)
				emitEnc(emit, r, typedTok('A', "str", []string{s, "", s}), 3)
				emitEncAllFaults(emit, typedTok('O', "str", []string{s + "=" + s}), 8)
				emitEnc(emit, r, typedTok('O', "i8", []string{s + "=-1"}), 2)
			}
			// containers: announced / unknown / zero / wrong lengths, finish on an empty stack
			for _, toks := range []string{
				"[0:0,]", "[-1:0,]", "{0:0,}", "{-1:0,}", "]", "}", "],}", "[1:0,],]", "[0:0,],[-1:0,]",
				"[1:0,[1:0,[1:0,[-1:0,],],],]", "{1:0,K:61,{1:0,K:62,{-1:0,},},}", "[127:0,]", "[128:0,]", "[255:0,]",
				"[256:0,]", "[32767:0,]", "[32768:0,]", "[2147483647:0,]", "[2147483648:0,]", "{127:0,}", "{128:0,}",
				"{255:0,}", "{256:0,}", "{32768:0,}", "{9223372036854775807:0,}", "[-2:0,]", "{-5:0,}",
				"[3:0,N,T,F,]", "[3:6,i8:1,i8:2,i8:3,]", "{2:3,K:61,T,K:62,F,}",
				"N", "T", "F", "N,N,T", "b:0", "b:67", "b:255", "u8:0", "u8:127", "u8:128", "u8:255",
			} {
				emitEncAllFaults(emit, toks, 8)
			}
		}
	}
}

// ---------------------------------------------------------------------------
// targeted parser ops

func cat(parts ...any) []byte {
	var out []byte
	for _, p := range parts {
		switch x := p.(type) {
		case string:
			out = append(out, x...)
		case []byte:
			out = append(out, x...)
		case byte:
			out = append(out, x)
		case int:
			out = append(out, byte(x))
		default:
			panic("cat")
		}
	}
	return out
}

func be(n int, v uint64) []byte {
	b := make([]byte, 8)
	binary.BigEndian.PutUint64(b, v)
	return b[8-n:]
}

// ubjLenWith: length n under marker m
func ubjLenWith(m byte, n int64) []byte {
	return ubjFixed(m, n, []byte{m})
}

var (
	hugeL63 = cat("L", be(8, 1<<63-1))
	hugeL31 = cat("L", be(8, 1<<31))
	hugel31 = cat("l", be(4, 1<<31-1))
)

func ubjTargetDocs() [][]byte {
	var docs [][]byte
	add := func(parts ...any) { docs = append(docs, cat(parts...)) }

	// scalars at their boundaries
	for _, s := range []string{"Z", "T", "F", "N", "i\x00", "i\x7f", "i\x80", "i\xff", "U\x00", "U\x7f", "U\x80", "U\xff",
		"C\x00", "Ca", "C\x7f", "C\x80", "C\xff", "I\x00\x00", "I\x7f\xff", "I\x80\x00", "I\xff\xff", "I\x00\x80",
		"l\x00\x00\x00\x00", "l\x7f\xff\xff\xff", "l\x80\x00\x00\x00", "l\xff\xff\xff\xff",
		"L\x00\x00\x00\x00\x00\x00\x00\x00", "L\x7f\xff\xff\xff\xff\xff\xff\xff", "L\x80\x00\x00\x00\x00\x00\x00\x00",
		"L\xff\xff\xff\xff\xff\xff\xff\xff", "L\x00\x00\x00\x00\x80\x00\x00\x00",
		"d\x00\x00\x00\x00", "d\x7f\xc0\x00\x00", "d\x7f\x80\x00\x01", "d\x40\x48\xf5\xc3", "d\x80\x00\x00\x00",
		"D\x00\x00\x00\x00\x00\x00\x00\x00", "D\x7f\xf8\x00\x00\x00\x00\x00\x00", "D\x40\x09\x1e\xb8\x51\xeb\x85\x1f",
		"D\xff\xf0\x00\x00\x00\x00\x00\x00"} {
		add(s)
	}
	// strings, high-precision numbers, keys and counts under every length marker
	for _, m := range ubjIntMarkers {
		for _, n := range []int64{0, 1, 3} {
			body := []byte("abc")[:n]
			add("S", ubjLenWith(m, n), body)
			add("H", ubjLenWith(m, n), []byte("123")[:n])
			add("{", ubjLenWith(m, n), body, "Z}")
			add("{#", ubjLenWith(m, 1), ubjLenWith(m, n), body, "T")
			add("[#", ubjLenWith(m, n), []byte("ZTF")[:n])
			add("[$U#", ubjLenWith(m, n), body)
			add("{$i#", ubjLenWith(m, n), []byte("i\x01a\x05i\x01c\x06U\x01b\x07")[:4*n])
		}
		// negative lengths
		add("S", ubjLenWith(m, -1), "abc")
		add("H", ubjLenWith(m, -2), "123")
		add("[#", ubjLenWith(m, -1), "Z")
		add("{#", ubjLenWith(m, -128), "Z")
		add("{", ubjLenWith(m, -1), "aZ}")
		add("[$i#", ubjLenWith(m, -1), "\x01")
		add("{$i#", ubjLenWith(m, -3), "\x01")
		add("{#i\x01", ubjLenWith(m, -1), "aZ")
	}
	add("SU\xff", strings.Repeat("x", 255))
	add("SI\x01\x00", strings.Repeat("y", 256))
	add("Si\x7f", strings.Repeat("z", 127))
	add("HU\x80", strings.Repeat("9", 128))
	// huge lengths not backed by data
	for _, h := range [][]byte{hugel31, hugeL31, hugeL63} {
		add("S", h, "abcdef")
		add("H", h, "123")
		add("[#", h, "ZT")
		add("[#", h)
		add("{#", h, "i\x01aZ")
		add("{#", h)
		add("{", h, "abc")
		add("[$i#", h, "\x01\x02\x03")
		add("[$S#", h, "i\x01a")
		add("[$[#", h, "]]")
		add("[${#", h, "}")
		add("{$i#", h, "i\x01a\x01")
		add("{$Z#", h, "i\x01ai\x01b")
		add("[[#", h, "Z")
		add("{#i\x01", h, "ab")
	}
	// nested typed containers
	add("[$[#i\x04", "$i#i\x02\x01\x02", "#i\x01Z", "TF]", "]")
	add("[$[#U\x02", "$[#i\x01", "$Z#i\x02", "$[#i\x00")
	add("[${#i\x03", "i\x01aZ}", "#i\x01i\x01bT", "$i#i\x01i\x01c\x05")
	add("{$[#i\x02", "i\x01a", "]", "i\x01b", "#i\x01Z")
	add("{${#I\x00\x02", "i\x01a", "$d#i\x01i\x01x\x3f\x80\x00\x00", "U\x01b", "}")
	add("{$[#i\x01i\x00", "$C#i\x03abc")
	add("[$S#i\x03", "i\x01a", "U\x00", "I\x00\x02bc")
	add("[$H#i\x02", "i\x011", "i\x0212")
	add("{$S#i\x02", "i\x01a", "i\x01x", "i\x01b", "i\x00")
	add("{$H#i\x01", "i\x01a", "i\x03123")
	add("[$d#i\x02", "\x3f\x80\x00\x00\x7f\xc0\x00\x00")
	add("[$D#i\x01", "\x40\x09\x1e\xb8\x51\xeb\x85\x1f")
	add("[$I#i\x02", "\x80\x00\x7f\xff")
	add("[$l#i\x01", "\x80\x00\x00\x00")
	add("[$L#i\x01", "\x80\x00\x00\x00\x00\x00\x00\x00")
	add("[$i#i\x03", "\x80\x00\x7f")
	add("[$U#i\x03", "\x80\x00\xff", "Z")
	add("[$C#i\x02", "a\xff")
	add("[[$i#i\x01\x05i\x07]")          // typed array followed by an untyped sibling
	add("[#i\x02[$i#i\x01\x05[$Z#i\x01") // element types must not leak
	add("{i\x01a[$U#i\x02\x01\x02i\x01bC\x41}")
	// payload-free element types
	add("[$Z#i\x03")
	add("[$T#i\x02")
	add("[$F#U\x05")
	add("[$Z#i\x00")
	add("[$Z#I\x03\xe8")
	add("[$Z#l\x00\x00\x00\x02")
	add("[$T#L\x00\x00\x00\x00\x00\x00\x00\x03")
	add("[$F#l\x00\x00\x01\x00")
	add("{$Z#i\x02i\x01ai\x01b")
	add("{$T#i\x01i\x00")
	add("{$F#i\x02i\x00i\x00")
	add("[$Z#i\x02", "Z")
	add("[[$T#i\x01][$F#i\x01]]")
	add("[$[#i\x02", "$Z#i\x01", "$T#i\x01", "Z")
	// counted containers ending the input / followed by more
	add("[#i\x02ZZ")
	add("[#i\x00")
	add("{#i\x00")
	add("{#i\x01i\x01aZ")
	add("{#i\x02i\x01aZi\x00T")
	add("[$i#i\x00")
	add("{$i#i\x00")
	add("[#i\x01[#i\x01[#i\x00")
	add("[#i\x01[#i\x01[#i\x00", "Z")
	add("{#i\x01i\x01a{#i\x01i\x01b{#i\x00")
	add("[#i\x02[#i\x00[#i\x00", "[#i\x00")
	add("[#i\x03ZZ")
	add("{#i\x02i\x01aZ")
	add("{#i\x01i\x01a")
	add("{#i\x01i\x01")
	add("[[#i\x01Z]")
	add("[#i\x01Z]")
	// no-ops in every position
	add("N")
	add("NN")
	add("NNZ")
	add("ZN")
	add("ZNT")
	add("[N]")
	add("[NZN]")
	add("[NNZNNTN]")
	add("[#i\x02NZNZ")
	add("[#i\x02NZNZN")
	add("[#i\x01ZN")
	add("[#i\x00N")
	add("[#i\x01N")
	add("[#Ni\x01Z")
	add("[N#i\x01Z")
	add("{i\x01aNZ}")
	add("{i\x01aNNZ}")
	add("{i\x01aN}")
	add("{Ni\x01aZ}")
	add("{i\x01aZN}")
	add("{N}")
	add("{#i\x01i\x01aNZ")
	add("{#i\x01i\x01aNNT")
	add("{#i\x01Ni\x01aZ")
	add("{#i\x01i\x01aZN")
	add("{#i\x01i\x01aN")
	add("{$i#i\x01i\x01aN")
	add("{$Z#i\x01i\x01aN")
	add("[$i#i\x02NN")
	add("[$N#i\x01")
	add("[$N#i\x00")
	add("{$N#i\x01i\x01a")
	add("[$[#i\x01N]")
	add("[$[#i\x01#i\x01NZ")
	add("SNi\x01a")
	add("SiN")
	// unknown markers and broken headers
	for _, s := range []string{"X", "\x00", "\xff", "}", "]", "#", "$", "[X]", "[ZX", "[#X", "[#", "[$", "[$i", "[$i#", "[$X#i\x01",
		"[$i X", "[$iZ", "[$i#X", "[$i#Z", "[$i$", "[$$", "[$#", "[$]#i\x00", "[$}#i\x00", "[$##i\x00", "{X", "{}", "{]", "[}", "{#X", "{$", "{$i", "{$i#",
		"{$X#i\x01", "{$iX", "{$i#X", "SX", "SZ", "S", "Si", "SS", "S#", "H", "HZ", "Hi", "[#S", "[#Z", "[#[", "[#]", "{#S", "{#}", "{i\x01aX}",
		"{i\x01a}", "{i\x01a", "{i\x01", "{i", "{", "[", "[[", "[{", "{i\x01a[", "[]", "[]]", "{}}", "[Z}", "{i\x01aZ]", "i", "U", "C", "I\x00", "l\x00\x00\x00",
		"L\x00\x00\x00\x00\x00\x00\x00", "d\x00", "D\x00", "[#i\x01X", "[$[#i\x01X", "[$S#i\x01X", "[$S#i\x01Z", "{$S#i\x01i\x01aX",
		"{#i\x01X", "{#i\x01i\x01aX", "{$i#i\x01X", "{U\x01aZ}", "{I\x00\x01aZ}", "{l\x00\x00\x00\x01aZ}",
		"{L\x00\x00\x00\x00\x00\x00\x00\x01aZ}", "{i\x00Z}", "{i\x00Zi\x00T}", "{#i\x01i\x00Z", "{#U\x02i\x00Zi\x00T", "{$U#i\x01i\x00\x09"} {
		add(s)
	}
	// a document using every feature once, and a stream of several values
	add("{", "i\x01a", "[", "Z", "N", "T", "F", "]", "U\x01b", "[#i\x03", "i\x01", "U\x02", "I\x00\x03",
		"I\x00\x01c", "{#i\x01", "i\x01k", "SU\x03abc", "l\x00\x00\x00\x01d", "[$d#i\x01", "\x3f\x80\x00\x00",
		"i\x01e", "{$S#i\x01", "i\x01x", "i\x01y", "i\x01f", "HU\x0512345", "i\x01g", "D\x40\x09\x1e\xb8\x51\xeb\x85\x1f",
		"i\x01h", "Cq", "i\x01j", "L\x00\x00\x00\x01\x00\x00\x00\x00", "}")
	add("Z", "N", "[#i\x01T", "i\x05", "N", "{}", "[]", "SU\x02hi", "[$Z#i\x01", "{#i\x00", "F")
	return docs
}

func oneByteChunks(b []byte) [][]byte {
	var out [][]byte
	for i := range b {
		out = append(out, b[i:i+1])
	}
	return out
}

func genUbjParseTargeted() GenFn {
	return func(r *Rand, tier string, emit func(string)) {
		maxCuts := tierN(tier, 40, 300)
		for _, doc := range ubjTargetDocs() {
			whole := ChunksString([][]byte{doc})
			emit("parse ubj P -1 " + whole)
			emit("parse ubj S -1 " + whole)
			emit("parse ubj R -1 " + ChunksString(r.RandChunks(doc)))
			emit("parse ubj W -1 " + ChunksString(oneByteChunks(doc)))
			emit("parse ubj R -1 " + ChunksString(oneByteChunks(doc)))
			// every two-way cut (sampled beyond maxCuts)
			for c := 0; c <= len(doc); c++ {
				if len(doc) > maxCuts && !r.P(100*maxCuts/len(doc)) {
					continue
				}
				emit("parse ubj W -1 " + ChunksString([][]byte{doc[:c], doc[c:]}))
			}
			for i := 0; i < 3; i++ {
				emit("parse ubj W -1 " + ChunksString(r.RandChunks(doc)))
			}
			// truncations
			if len(doc) <= 2*maxCuts {
				for c := 0; c < len(doc); c++ {
					emit("parse ubj P -1 " + ChunksString([][]byte{doc[:c]}))
					if c > 0 && (c <= 24 || r.P(30)) {
						emit("parse ubj W -1 " + ChunksString(oneByteChunks(doc[:c])))
					}
				}
			}
			// visitor faults
			for f := 0; f < 6; f++ {
				emit(fmt.Sprintf("parse ubj P %d %s", f, whole))
			}
			emit(fmt.Sprintf("parse ubj W %d %s", r.Intn(8), ChunksString(oneByteChunks(doc))))
			emit(fmt.Sprintf("parse ubj W %d %s", r.Intn(8), ChunksString(r.RandChunks(doc))))
			// pull decoder: byte slice, 1-byte reads, small buffers
			emit(fmt.Sprintf("dec ubj 0 0 12 %s", whole))
			emit(fmt.Sprintf("dec ubj 1 0 12 %s", ChunksString(oneByteChunks(doc))))
			emit(fmt.Sprintf("dec ubj 1 1 12 %s", ChunksString(oneByteChunks(doc))))
			emit(fmt.Sprintf("dec ubj 3 %d 12 %s", r.Intn(2), whole))
			emit(fmt.Sprintf("dec ubj 64 1 12 %s", ChunksString(append([][]byte{{}}, r.RandChunks(doc)...))))
		}
	}
}

// a string longer than io.Copy's 32 KiB buffer: ParseReader hands it to Write in pieces
func genUbjBigDoc() GenFn {
	return func(r *Rand, tier string, emit func(string)) {
		doc := cat("[#i\x02", "Sl", be(4, 40000), asciiOfLen(r, 40000), "i\x07")
		emit("parse ubj P -1 " + ChunksString([][]byte{doc}))
		emit("parse ubj R -1 " + ChunksString([][]byte{doc}))
		emit("parse ubj R -1 " + ChunksString([][]byte{doc[:3], doc[3:]}))
		emit("parse ubj W -1 " + ChunksString([][]byte{doc[:20000], doc[20000:39000], doc[39000:]}))
		emit("parse ubj R -1 " + ChunksString([][]byte{doc[:39990]}))
		emit("dec ubj 4096 0 3 " + ChunksString([][]byte{doc}))
	}
}

// alphabet for the exhaustive short inputs: every marker and a few payload bytes
var ubjAlphabet = []byte("ZNTFiUIlLdDHCS{}[]#$\x00\x01\x02\xff")

func init() {
	// development aid: correspondence sweep of the UBJSON mirror
	RegisterGen("XUBJ", genEncBoundaries("ubj"))
	RegisterGen("XUBJ", genEncOps("ubj", 3000, true))
	RegisterGen("XUBJ", genParseOps("ubj", 4000, 35, true))
	RegisterGen("XUBJ", genShortInputs("ubj", ubjAlphabet))
	RegisterGen("XUBJ", genDecOps("ubj", 2000))
	RegisterGen("XUBJ", genUbjEncTargeted())
	RegisterGen("XUBJ", genUbjParseTargeted())
	RegisterGen("XUBJ", genUbjBigDoc())
}
