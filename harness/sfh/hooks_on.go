//go:build verif

package sfh

import (
	structform "github.com/elastic/go-structform"
	"github.com/elastic/go-structform/cborl"
	"github.com/elastic/go-structform/gotype"
	"github.com/elastic/go-structform/json"
	"github.com/elastic/go-structform/ubjson"
)

// HooksAvailable: the harness was built against /repo's verif-tagged hooks
const HooksAvailable = true

type hookedParser interface {
	VerifFinalize() error
	VerifDepths() []int
}

func hookEncDepths(v structform.Visitor) func() []int {
	switch x := v.(type) {
	case *cborl.Visitor:
		return x.VerifDepths
	case *ubjson.Visitor:
		return x.VerifDepths
	case *json.Visitor:
		return x.VerifDepths
	}
	return func() []int { return nil }
}

func hookParserDepths(p parserI) []int {
	if h, ok := p.(hookedParser); ok {
		return h.VerifDepths()
	}
	return nil
}

func hookParserFinalize(p parserI) error {
	if h, ok := p.(hookedParser); ok {
		return h.VerifFinalize()
	}
	return nil
}

func hookJSONEscapeSets() ([]bool, []bool) { return json.VerifEscapeSets() }

func hookKeyCacheOrder(u *gotype.Unfolder) ([]string, int, bool) { return u.VerifKeyCacheOrder() }

func hookUnfDepths(u *gotype.Unfolder) []int { return u.VerifDepths() }
