package sfh

import (
	"fmt"
	"strings"
)

// genDeepNesting: chains of nested containers around the depths where fixed-size state
// (bit sets, small arrays, stack0 backing arrays) runs out — 1…3, 7/8/9, 15…17, 31…33, 63…66,
// 127…129, 200, 300 — with every pattern of unknown (-1) and announced lengths along the
// chain, arrays and objects mixed, a scalar sibling after the inner container at every level
// (so that a lost close / break marker changes the value).  Encoders: `enc`, `rt`, `reuse-enc`
// (a deep document followed by a flat probe); parsers: the encoder's own output re-parsed by
// `rt`, plus `chunk` on the wire form in 1-byte chunks for the shallow half.
func genDeepNesting(f string) GenFn {
	return func(r *Rand, tier string, emit func(string)) {
		depths := []int{1, 2, 3, 7, 8, 9, 15, 16, 17, 31, 32, 33, 63, 64, 65, 66, 127, 128, 129, 200}
		if tier == "thorough" {
			depths = append(depths, 255, 256, 257, 300, 1000)
		}
		patterns := []string{"unknown", "announced", "outer-unknown", "inner-unknown", "alternate", "random"}
		shapes := []string{"arr", "obj", "mixed"}
		for _, d := range depths {
			for _, pat := range patterns {
				for _, shape := range shapes {
					var open, close []string
					for lvl := 0; lvl < d; lvl++ {
						unknown := false
						switch pat {
						case "unknown":
							unknown = true
						case "outer-unknown":
							unknown = lvl < 2
						case "inner-unknown":
							unknown = lvl >= d-2
						case "alternate":
							unknown = lvl%2 == 0
						case "random":
							unknown = r.Bool()
						}
						isObj := shape == "obj" || (shape == "mixed" && lvl%3 == 1)
						// members of this level: the inner container (or a leaf) and a trailing scalar
						n := "2"
						if unknown {
							n = "-1"
						}
						if isObj {
							open = append(open, "{"+n+":0", "K:61")
							close = append(close, "K:7a,i:"+fmt.Sprint(lvl)+",}")
						} else {
							open = append(open, "["+n+":0")
							close = append(close, "i:"+fmt.Sprint(lvl)+",]")
						}
					}
					var toks []string
					toks = append(toks, open...)
					toks = append(toks, "T")
					for i := len(close) - 1; i >= 0; i-- {
						toks = append(toks, strings.Split(close[i], ",")...)
					}
					doc := strings.Join(toks, ",")
					emit(fmt.Sprintf("enc %s - -1 %s", f, doc))
					emit(fmt.Sprintf("rt %s - %s", f, doc))
					if d <= 130 {
						emit(fmt.Sprintf("reuse-enc %s - %s;[-1:0,T,]", f, doc))
					}
				}
			}
		}
	}
}

func init() {
	for _, f := range ModelledFormats {
		g := genDeepNesting(f)
		RegisterGen("C07", onlyOp("enc", g))
		RegisterGen("C01", onlyOp("rt", g))
		RegisterGen("C17", onlyOp("reuse-enc", g))
		RegisterGen("C09", onlyOp("rt", g))
		RegisterGen("C16", onlyOp("enc", g))
	}
}
