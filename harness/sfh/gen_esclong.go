package sfh

import (
	"fmt"
	"strings"
)

// genEscLong: documents with SEVERAL strings / keys that need unescaping, the first longer than
// the parser's built-in literal buffer (64 bytes, also 4096), later ones shorter / equal /
// longer — a parser that hands out a view of a buffer it goes on using delivers the first string
// correctly and changes it afterwards (C01 round trip, C04 value, C15 ownership).
func escLongDocs() []string {
	esc := func(n int, c byte, at int) string { // n bytes of 'a'..'y' with the byte c (needs escaping) at position at
		b := []byte(strings.Repeat("abcdefghijklmnopqrstuvwxy", n/25+1)[:n])
		if n > 0 {
			b[at%n] = c
		}
		return hx(b)
	}
	var docs []string
	for _, n1 := range []int{40, 55, 56, 57, 58, 63, 64, 65, 100, 300, 4000, 4089, 4096, 4097, 5000} {
		for _, n2 := range []int{1, 10, 56, 57, n1 - 1, n1, n1 + 1} {
			for _, c := range []byte{'"', '\\', '\n', 0x01, '<'} {
				a, b := esc(n1, c, 0), esc(n2, c, n2-1)
				docs = append(docs,
					"[-1:0,S:"+a+",S:"+b+",]",
					"{-1:0,K:"+a+",i:1,K:"+b+",i:2,}",
					"{-1:0,K:6b,S:"+a+",K:"+b+",[-1:0,S:"+b+",S:"+a+",],}",
					"[-1:0,S:"+a+",i:5,S:"+b+",f64:3ff8000000000000,S:"+esc(n2, c, n2/2)+",]",
				)
			}
		}
	}
	return docs
}

func genEscLongRT(r *Rand, tier string, emit func(string)) {
	for i, d := range escLongDocs() {
		if tier != "thorough" && i%3 != int(r.Intn(3)) && len(d) > 2000 {
			continue
		}
		for _, f := range ModelledFormats {
			emit(fmt.Sprintf("rt %s - %s", f, d))
		}
	}
}

func genEscLongParse(r *Rand, tier string, emit func(string)) {
	for i, d := range escLongDocs() {
		if tier != "thorough" && i%3 != int(r.Intn(3)) && len(d) > 2000 {
			continue
		}
		wire := encodeToks("json", d)
		if wire == nil {
			continue
		}
		wire = append(wire, ' ')
		emit("parse json " + Pick(r, []string{"P", "S", "R"}) + " -1 " + ChunksString([][]byte{wire}))
		cut := 1 + r.Intn(len(wire)-1)
		emit("parse json W -1 " + ChunksString([][]byte{wire[:cut], wire[cut:]}))
	}
}

func genEscLongChunk(r *Rand, tier string, emit func(string)) {
	genEscLongParse(r, tier, func(l string) {
		f := strings.Fields(l)
		if f[2] == "W" || f[2] == "R" {
			emit("chunk json " + f[2] + " " + f[4])
		}
	})
}

func init() {
	RegisterGen("C01", genEscLongRT)
	RegisterGen("C04", genEscLongParse)
	RegisterGen("C02", genEscLongChunk)
}

// genJsonReuseNumbers: one json.Parser, Parse called for document after document — a bare
// top-level number (ended only by the end of the input: reported by finalize) with / without
// fraction or exponent, then documents whose numbers are integers beyond 2^53 or floats: how a
// number is classified must not depend on what the parser read before (C04: no number is ever
// reported as a different number; C17)
func genJsonReuseNumbers(r *Rand, tier string, emit func(string)) {
	firsts := []string{"1.5", "-2e3", "0.25", "1E5", "12", "-7", "0", "1e-2 ", "3.0 "}
	mids := []string{"", "{}", "[]", "null ", "\"s\""}
	probes := []string{"[9007199254740993,2]", "18446744073709551615", "{\"a\":-9223372036854775808}", "[1,2.5,3]", "9007199254740993 ", "[1e2,100]", "{\"k\":[18446744073709551615,1.0]}"}
	for _, a := range firsts {
		for _, m := range mids {
			for _, p := range probes {
				docs := []string{hx([]byte(a))}
				if m != "" {
					docs = append(docs, hx([]byte(m)))
				}
				docs = append(docs, hx([]byte(p)))
				emit("reuse-parse json P " + strings.Join(docs, ";"))
			}
		}
	}
}

func init() {
	RegisterGen("C04", genJsonReuseNumbers)
	RegisterGen("C17", genJsonReuseNumbers)
}
