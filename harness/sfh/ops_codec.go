package sfh

import (
	"bytes"
	"errors"
	"fmt"
	"io"
	"strconv"
	"strings"

	structform "github.com/elastic/go-structform"
	"github.com/elastic/go-structform/cborl"
	"github.com/elastic/go-structform/json"
	"github.com/elastic/go-structform/ubjson"
)

// ---------------------------------------------------------------------------
// format table

type parserI interface {
	Parse([]byte) error
	Write([]byte) (int, error)
}

type decoderI interface{ Next() error }

type Format struct {
	Name            string
	NewEncoder      func(w io.Writer, opts string) (structform.Visitor, func() []int)
	NewParser       func(v structform.Visitor) parserI
	Parse           func(b []byte, v structform.Visitor) error
	ParseString     func(s string, v structform.Visitor) error
	ParseReader     func(r io.Reader, v structform.Visitor) (int64, error)
	NewDecoder      func(r io.Reader, buf int, v structform.Visitor) decoderI
	NewBytesDecoder func(b []byte, v structform.Visitor) decoderI
}

var Formats = map[string]*Format{
	"cbor": {
		Name: "cbor",
		NewEncoder: func(w io.Writer, _ string) (structform.Visitor, func() []int) {
			v := cborl.NewVisitor(w)
			return v, hookEncDepths(v)
		},
		NewParser:   func(v structform.Visitor) parserI { return cborl.NewParser(v) },
		Parse:       cborl.Parse,
		ParseString: cborl.ParseString,
		ParseReader: cborl.ParseReader,
		NewDecoder: func(r io.Reader, buf int, v structform.Visitor) decoderI {
			return cborl.NewDecoder(r, buf, v)
		},
		NewBytesDecoder: func(b []byte, v structform.Visitor) decoderI { return cborl.NewBytesDecoder(b, v) },
	},
	"ubj": {
		Name: "ubj",
		NewEncoder: func(w io.Writer, _ string) (structform.Visitor, func() []int) {
			v := ubjson.NewVisitor(w)
			return v, hookEncDepths(v)
		},
		NewParser:   func(v structform.Visitor) parserI { return ubjson.NewParser(v) },
		Parse:       ubjson.Parse,
		ParseString: ubjson.ParseString,
		ParseReader: ubjson.ParseReader,
		NewDecoder: func(r io.Reader, buf int, v structform.Visitor) decoderI {
			return ubjson.NewDecoder(r, buf, v)
		},
		NewBytesDecoder: func(b []byte, v structform.Visitor) decoderI { return ubjson.NewBytesDecoder(b, v) },
	},
	"json": {
		Name: "json",
		NewEncoder: func(w io.Writer, opts string) (structform.Visitor, func() []int) {
			v := json.NewVisitor(w)
			// opts: string over {h,r,i} = escapeHTML, explicitRadixPoint, ignoreInvalidFloat
			v.SetEscapeHTML(strings.Contains(opts, "h"))
			v.SetExplicitRadixPoint(strings.Contains(opts, "r"))
			v.SetIgnoreInvalidFloat(strings.Contains(opts, "i"))
			return v, hookEncDepths(v)
		},
		NewParser:   func(v structform.Visitor) parserI { return json.NewParser(v) },
		Parse:       json.Parse,
		ParseString: json.ParseString,
		ParseReader: json.ParseReader,
		NewDecoder: func(r io.Reader, buf int, v structform.Visitor) decoderI {
			return json.NewDecoder(r, buf, v)
		},
		NewBytesDecoder: func(b []byte, v structform.Visitor) decoderI { return json.NewBytesDecoder(b, v) },
	},
}

// ---------------------------------------------------------------------------
// writers / readers

// FailWriter fails from its FailFrom-th Write call on (FailFrom < 0: never).
type FailWriter struct {
	Buf      bytes.Buffer
	Calls    int
	FailFrom int
}

var ErrWrite = errors.New("injected write failure")

func (w *FailWriter) Write(b []byte) (int, error) {
	i := w.Calls
	w.Calls++
	if w.FailFrom >= 0 && i >= w.FailFrom {
		return 0, ErrWrite
	}
	return w.Buf.Write(b)
}

// ChunkReader returns the scripted chunks one per Read (no WriterTo); an empty
// chunk is a (0, nil) read; the last chunk optionally arrives with io.EOF.
type ChunkReader struct {
	Chunks  [][]byte
	LastEOF bool
	pending []byte
}

func (r *ChunkReader) Read(p []byte) (int, error) {
	if len(r.pending) == 0 {
		if len(r.Chunks) == 0 {
			return 0, io.EOF
		}
		r.pending = r.Chunks[0]
		r.Chunks = r.Chunks[1:]
		if len(r.pending) == 0 {
			return 0, nil
		}
	}
	n := copy(p, r.pending)
	r.pending = r.pending[n:]
	if len(r.pending) == 0 && len(r.Chunks) == 0 && r.LastEOF {
		return n, io.EOF
	}
	return n, nil
}

// ---------------------------------------------------------------------------
// enc <fmt> <opts> <failFrom|-1> <xevents>
//   -> <hex written>|<ok|err@i>|<depths>

func optsField(s string) string {
	if s == "-" {
		return ""
	}
	return s
}

func opEnc(args []string) string {
	f := Formats[args[0]]
	failFrom, _ := strconv.Atoi(args[2])
	w := &FailWriter{FailFrom: failFrom}
	v, depths := f.NewEncoder(w, optsField(args[1]))
	ev := structform.EnsureExtVisitor(v)
	res := "ok"
	for i, t := range Toks(args[3]) {
		if err := PlayTok(ev, t); err != nil {
			res = "err@" + strconv.Itoa(i)
			break
		}
	}
	out := hx(w.Buf.Bytes())
	if out == "" {
		out = "-"
	}
	wf := "wf=0"
	if w.FailFrom >= 0 && w.Calls > w.FailFrom {
		wf = "wf=1"
	}
	return out + "|" + res + "|" + Depths(depths()) + "|" + wf
}

// ---------------------------------------------------------------------------
// parse <fmt> <entry> <failAt|-1> <chunks>
//   entry: P = Parse(concatenation), S = ParseString(concatenation),
//          W = NewParser + Write per chunk + end of input, R = ParseReader(chunk reader)
//   -> <events>|<ok|err|err:injected>|<depths after each chunk (W only) or ->

func opParse(args []string) string {
	f := Formats[args[0]]
	entry := args[1]
	failAt, _ := strconv.Atoi(args[2])
	chunks := Chunks(args[3])
	rec := NewRecorder()
	rec.FailAt = failAt
	var err error
	dep := "-"
	switch entry {
	case "P":
		err = f.Parse(bytes.Join(chunks, nil), rec)
	case "S":
		err = f.ParseString(string(bytes.Join(chunks, nil)), rec)
	case "R":
		_, err = f.ParseReader(&ChunkReader{Chunks: chunks}, rec)
	case "W":
		p := f.NewParser(rec)
		var ds []string
		for _, c := range chunks {
			if _, err = p.Write(c); err != nil {
				break
			}
			ds = append(ds, depthsOf(hookParserDepths(p)))
		}
		if err == nil {
			err = hookParserFinalize(p)
		}
		if len(ds) > 0 {
			dep = strings.Join(ds, "/")
		}
	default:
		return "bad-op"
	}
	return rec.String() + "|" + ErrClass(err) + "|" + dep
}

// ---------------------------------------------------------------------------
// dec <fmt> <bufsize|0=bytes decoder> <lastEOF 0|1> <maxNext> <chunks>
//   -> per Next: <events>=<ok|eof|err> joined by ";"   (stops after the first non-ok)

// decf <fmt> <bufsize> <lastEOF> <maxNext> <failAt> <chunks>: dec with a visitor failing from its k-th event on
func opDecF(args []string) string {
	k, _ := strconv.Atoi(args[4])
	return decRun(args[0], args[1], args[2], args[3], k, args[5])
}

func opDec(args []string) string {
	return decRun(args[0], args[1], args[2], args[3], -1, args[4])
}

func decRun(fmtName, bs, le, mn string, failAt int, cs string) string {
	f := Formats[fmtName]
	bufsize, _ := strconv.Atoi(bs)
	lastEOF := le == "1"
	maxNext, _ := strconv.Atoi(mn)
	chunks := Chunks(cs)
	rec := NewRecorder()
	rec.FailAt = failAt
	var d decoderI
	if bufsize == 0 {
		d = f.NewBytesDecoder(bytes.Join(chunks, nil), rec)
	} else {
		d = f.NewDecoder(&ChunkReader{Chunks: chunks, LastEOF: lastEOF}, bufsize, rec)
	}
	var outs []string
	for i := 0; i < maxNext; i++ {
		rec.Reset()
		err := d.Next()
		res := "ok"
		if err == io.EOF {
			res = "eof"
		} else if err != nil {
			res = "err"
		}
		outs = append(outs, rec.String()+"="+res)
		if err != nil {
			break
		}
	}
	return strings.Join(outs, ";")
}

// ---------------------------------------------------------------------------
// xcode <src> <dst> <opts> <chunks>  (README: Src.ParseReader(in, Dst.NewVisitor(out)))
//   -> <hex target>|<ok|err>

func opXcode(args []string) string {
	src, dst := Formats[args[0]], Formats[args[1]]
	var out bytes.Buffer
	v, _ := dst.NewEncoder(&out, optsField(args[2]))
	_, err := src.ParseReader(&ChunkReader{Chunks: Chunks(args[3])}, v)
	h := hx(out.Bytes())
	if h == "" {
		h = "-"
	}
	return h + "|" + ErrClass(err)
}

// ---------------------------------------------------------------------------
// reuse-enc <fmt> <opts> <doc>;<doc>;...;<probe>    (docs = xevents)
//
//	-> <hex of probe on reused instance>|<hex of probe on fresh instance>|<depths between docs>
func opReuseEnc(args []string) string {
	f := Formats[args[0]]
	docs := strings.Split(args[2], ";")
	w := &FailWriter{FailFrom: -1}
	v, depths := f.NewEncoder(w, optsField(args[1]))
	ev := structform.EnsureExtVisitor(v)
	var ds []string
	var last string
	for _, d := range docs {
		w.Buf.Reset()
		for _, t := range Toks(d) {
			if err := PlayTok(ev, t); err != nil {
				return "err"
			}
		}
		last = hx(w.Buf.Bytes())
		ds = append(ds, Depths(depths())[2:])
	}
	w2 := &FailWriter{FailFrom: -1}
	v2, _ := f.NewEncoder(w2, optsField(args[1]))
	ev2 := structform.EnsureExtVisitor(v2)
	for _, t := range Toks(docs[len(docs)-1]) {
		if err := PlayTok(ev2, t); err != nil {
			return "err"
		}
	}
	return last + "|" + hx(w2.Buf.Bytes()) + "|" + strings.Join(ds, "/")
}

// reuse-parse <fmt> <mode P|W> <doc>;<doc>;...;<probe>     (docs = hex)
//
//	one parser instance; mode W: Write(doc) + end-of-input check per doc, mode P: p.Parse(doc)
//	-> <events of probe on reused>|<events of probe on fresh>|<depths between docs>
func opReuseParse(args []string) string {
	f := Formats[args[0]]
	mode := args[1]
	docs := strings.Split(args[2], ";")
	feed := func(p parserI, d []byte) error {
		if mode == "P" {
			return p.Parse(d)
		}
		if _, err := p.Write(d); err != nil {
			return err
		}
		return hookParserFinalize(p)
	}
	rec := NewRecorder()
	p := f.NewParser(rec)
	var ds []string
	for i, d := range docs {
		rec.Reset()
		if err := feed(p, mustHex(d)); err != nil {
			// a document of the history is refused by the REUSED parser: does a new one take it?
			if feed(f.NewParser(NewRecorder()), mustHex(d)) == nil {
				return "refused@" + strconv.Itoa(i) + ":a-new-parser-accepts-it"
			}
			return "err"
		}
		ds = append(ds, depthsOf(hookParserDepths(p)))
	}
	rec2 := NewRecorder()
	p2 := f.NewParser(rec2)
	if err := feed(p2, mustHex(docs[len(docs)-1])); err != nil {
		return "err"
	}
	return rec.String() + "|" + rec2.String() + "|" + strings.Join(ds, "/")
}

// ---------------------------------------------------------------------------
// rt <fmt> <opts> <xevents>       encode, then Parse the produced bytes
//
//	-> <hex>|<ok|err@i>|<events>|<verdict>
func opRT(args []string) string {
	f := Formats[args[0]]
	w := &FailWriter{FailFrom: -1}
	v, _ := f.NewEncoder(w, optsField(args[1]))
	ev := structform.EnsureExtVisitor(v)
	res := "ok"
	for i, t := range Toks(args[2]) {
		if err := PlayTok(ev, t); err != nil {
			res = "err@" + strconv.Itoa(i)
			break
		}
	}
	out := hx(w.Buf.Bytes())
	if out == "" {
		out = "-"
	}
	rec := NewRecorder()
	err := f.Parse(w.Buf.Bytes(), rec)
	obs := out + "|" + res + "|" + rec.String() + "|" + ErrClass(err)
	// the same bytes through the reader entry point in 1-byte reads and through the pull decoder
	// with a 3-byte buffer: the round trip must not depend on how the bytes arrive (only
	// reported when it does, so that the observation stays the whole-buffer one)
	if n := w.Buf.Len(); n > 0 && n <= 4096 {
		var one [][]byte
		b := w.Buf.Bytes()
		for j := range b {
			one = append(one, b[j:j+1])
		}
		rec2 := NewRecorder()
		_, err2 := f.ParseReader(&ChunkReader{Chunks: one}, rec2)
		if rec2.String() != rec.String() || ErrClass(err2) != ErrClass(err) {
			obs += "|CHUNKED:" + ErrClass(err2)
		}
	}
	return obs
}

// chunk <fmt> <entry W|R> <chunks>     whole-buffer Parse versus a chunked entry point
//
//	-> <events whole>|<verdict whole>|<events chunked>|<verdict chunked>|<depths per chunk (W)>
func opChunk(args []string) string {
	f := Formats[args[0]]
	chunks := Chunks(args[2])
	rec := NewRecorder()
	err := f.Parse(bytes.Join(chunks, nil), rec)
	whole := rec.String() + "|" + ErrClass(err)
	return whole + "|" + opParse([]string{args[0], args[1], "-1", args[2]})
}

// ext <fmt> <opts> <prefix xevents> <x: one extended token> <suffix xevents>
//
//	the stream prefix,x,suffix versus prefix,expand(x),suffix on two fresh encoders
//	-> <hex with x>|<res>|<depth after x>|<hex with expansion>|<res>|<depth after expansion>
func opExt(args []string) string {
	f := Formats[args[0]]
	run := func(mid []string) string {
		w := &FailWriter{FailFrom: -1}
		v, depths := f.NewEncoder(w, optsField(args[1]))
		ev := structform.EnsureExtVisitor(v)
		res := "ok"
		i := 0
		d := ""
		play := func(ts []string) bool {
			for _, t := range ts {
				if err := PlayTok(ev, t); err != nil {
					res = "err@" + strconv.Itoa(i)
					return false
				}
				i++
			}
			return true
		}
		if play(Toks(args[2])) && play(mid) {
			d = Depths(depths())
			play(Toks(args[4]))
		}
		out := hx(w.Buf.Bytes())
		if out == "" {
			out = "-"
		}
		return out + "|" + res + "|" + d
	}
	return run([]string{args[3]}) + "|" + run(ExpandTok(args[3]))
}

// depthsOf: "3.0" style rendering of hook depths ("-" without hooks)
func depthsOf(d []int) string {
	if d == nil {
		return "-"
	}
	return Depths(d)[2:]
}

// escsets: the two 128-entry JSON escape tables as filled by json's init()
//
//	-> <128 x 0/1 json set>|<128 x 0/1 html set>
func opEscSets(args []string) string {
	js, hs := hookJSONEscapeSets()
	f := func(t []bool) string {
		b := make([]byte, len(t))
		for i, x := range t {
			b[i] = '0'
			if x {
				b[i] = '1'
			}
		}
		return string(b)
	}
	return f(js) + "|" + f(hs)
}

func init() {
	RegisterOp("escsets", opEscSets)
	RegisterOp("rt", opRT)
	RegisterOp("chunk", opChunk)
	RegisterOp("ext", opExt)
	RegisterOp("enc", opEnc)
	RegisterOp("parse", opParse)
	RegisterOp("dec", opDec)
	RegisterOp("decf", opDecF)
	RegisterOp("xcode", opXcode)
	RegisterOp("reuse-enc", opReuseEnc)
	RegisterOp("reuse-parse", opReuseParse)
	_ = fmt.Sprint
}
